#!/bin/sh
# usage: seedverify.sh <worktree-dir>   (e.g. /tmp/wt/C01): confirms in a fresh scratch worktree that
#  (a) the patch applies to /repo HEAD, (b) the unedited test suite passes with it, (c) the demo fails with it and passes without it
W=$1
V=/tmp/wt/verify-$$
git -C /repo worktree add -q $V HEAD || exit 3
trap 'git -C /repo worktree remove --force '$V' 2>/dev/null' EXIT INT TERM
cd $V
mkdir -p seed && cp $W/seed/demo.py seed/ 2>/dev/null; cp $W/seed/*.py seed/ 2>/dev/null
echo "--- demo WITHOUT change:"; timeout 300 /venv/bin/python seed/demo.py > /tmp/seedverify.out 2>&1; echo "exit=$?"; tail -2 /tmp/seedverify.out
git apply --whitespace=nowarn $W/seed/patch.diff || { echo "patch does not apply"; exit 3; }
git diff --stat | tail -3
echo "--- tests WITH change:"; unshare -n sh -c "ip link set lo up; timeout 900 /venv/bin/python -m pytest -q -p no:cacheprovider --timeout=900 2>&1 | tail -1"
echo "--- demo WITH change:"; timeout 300 /venv/bin/python seed/demo.py > /tmp/seedverify.out 2>&1; echo "exit=$?"; tail -3 /tmp/seedverify.out
