#!/bin/sh
# usage: mutant.sh <Cnn> <file-under-mpgameserver> <<< '[["old","new"]]'   (extra args passed to ./check)
# copies /repo/mpgameserver to a scratch dir, applies the replacement, runs the check on it, cleans up
P=$1; F=$2; shift 2
D=/dev/shm/verif-mut-$$
mkdir -p $D && cp -r /repo/mpgameserver $D/ && cp -r /repo/tests $D/ 2>/dev/null
python3 /verif/tools/repl.py $D/mpgameserver/$F || { rm -rf $D; exit 3; }
cd /verif && SX_REPLAY_DIR=$D/replays VERIF_REPO=$D timeout 1200 ./check $P --no-evidence "$@" > $D/out.txt; rc=$?; grep -E "^(C[0-9]+ tier|VIOLATION|KNOWN-FINDING|  L)" $D/out.txt | cut -c1-300 | head -12; echo "inconclusive lines: $(grep -c ^INCONCLUSIVE $D/out.txt) exit=$rc"
true
rm -rf $D
exit $rc
