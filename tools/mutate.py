#!/usr/bin/env python3
"""Mutation analysis of the checks (DESIGN §12.3).  Not part of any registered check: it measures them.

  mutate.py gen    [--seed N] [--max K]   enumerate first-order mutants of the functions the checks encode
                                          (evidence/*.json: coverage.functions_encoded) -> $WORK/mutants.json
  mutate.py tests  [-j 8]                 run the repository's unedited test suite on every mutant (scratch copy,
                                          private network namespace); keep the ones that stay green -> $WORK/survivors.json
  mutate.py checks [-j 3] [--tier quick]  run, for every survivor, the quick checks of the properties that encode the
                                          mutated function, on the scratch copy (VERIF_REPO) -> $WORK/results.json
  mutate.py report                        table: caught (exit 1) / inconclusive (exit 2) / not caught (exit 0)

Mutants are byte-exact edits of /repo's sources (CRLF preserved); /repo itself is never touched.
Operators: comparison boundary/negation, integer constant +-1, + <-> -, and <-> or, dropped `not`, negated branch
condition, statement deletion (call / assignment / augmented assignment / raise -> pass), return True <-> False.
"""
import argparse
import ast
import concurrent.futures as cf
import glob
import json
import os
import random
import re
import shutil
import subprocess
import sys

VERIF = os.path.dirname(os.path.dirname(os.path.abspath(__file__)))
REPO = '/repo'
WORK = os.environ.get('MUT_WORK', '/dev/shm/verif-mut')
MODS = ['connection', 'serializable', 'http_server', 'auth', 'dispatch', 'context', 'server', 'client', 'twisted']


def encoded():
    enc = {}
    for f in glob.glob(os.path.join(VERIF, 'evidence', 'C*.json')):
        d = json.load(open(f))
        for fn in d['coverage']['functions_encoded']:
            enc.setdefault(fn, set()).add(d['property_id'])
    return {k: sorted(v) for k, v in enc.items()}


def anchors():
    """property -> [(file, lo, hi)] from the 'where' fields of properties.jsonl (line numbers of the pinned commit;
    used with a tolerance, only to order the checks that are run for a mutant)"""
    out = {}
    for l in open(os.path.join(VERIF, 'properties.jsonl')):
        d = json.loads(l)
        for grp in ('state', 'mechanism'):
            for it in d['anchors'].get(grp, []):
                for part in it.get('where', '').split(';'):
                    m = re.match(r'\s*([\w/\.]+\.py):([\d,\- ]+)', part)
                    if not m:
                        continue
                    for rng in m.group(2).split(','):
                        rng = rng.strip()
                        if not rng:
                            continue
                        a, _, b = rng.partition('-')
                        out.setdefault(d['id'], []).append((m.group(1), int(a), int(b or a)))
    return out


CMP = [(b'<=', b'<'), (b'>=', b'>'), (b'==', b'!='), (b'!=', b'=='), (b'<', b'<='), (b'>', b'>='),
       (b' is not ', b' is '), (b' not in ', b' in '), (b' is ', b' is not '), (b' in ', b' not in ')]


def gen_module(mod, enc):
    path = os.path.join(REPO, 'mpgameserver', mod + '.py')
    data = open(path, 'rb').read()
    tree = ast.parse(data.decode('utf-8'))
    offs = [0]
    for ln in data.split(b'\n')[:-1]:
        offs.append(offs[-1] + len(ln) + 1)

    def pos(line, col):
        return offs[line - 1] + col

    def span(n):
        return pos(n.lineno, n.col_offset), pos(n.end_lineno, n.end_col_offset)
    out = []

    def add(func, node, a, b, new, op):
        old = data[a:b]
        if old == new:
            return
        out.append(dict(module=mod, func=func, line=node.lineno, start=a, end=b, old=old.decode('utf-8', 'replace'),
                        new=new.decode('utf-8', 'replace'), op=op))

    def between(func, node, left, right, table, op):
        a, b = span(left)[1], span(right)[0]
        seg = data[a:b]
        for old, new in table:
            k = seg.find(old)
            if k >= 0:
                add(func, node, a + k, a + k + len(old), new, op)
                return

    def visit_body(func, node, docstring_ok=True):
        for ch in ast.walk(node):
            if isinstance(ch, (ast.FunctionDef, ast.AsyncFunctionDef, ast.ClassDef, ast.Lambda)) and ch is not node:
                continue
        # explicit traversal that does not descend into nested defs
        stack = list(ast.iter_child_nodes(node))
        first = node.body[0] if getattr(node, 'body', None) else None
        while stack:
            n = stack.pop()
            if isinstance(n, (ast.FunctionDef, ast.AsyncFunctionDef, ast.ClassDef)):
                continue
            if n is first and isinstance(n, ast.Expr) and isinstance(n.value, ast.Constant) and isinstance(n.value.value, str):
                continue
            stack.extend(ast.iter_child_nodes(n))
            if isinstance(n, ast.Compare) and len(n.ops) == 1:
                between(func, n, n.left, n.comparators[0], CMP, 'cmp')
            elif isinstance(n, ast.Constant) and type(n.value) is int and abs(n.value) < 2 ** 40:
                a, b = span(n)
                txt = data[a:b]
                if re.fullmatch(rb'[0-9]+', txt):
                    v = n.value
                    for w in ([v + 1] if v == 0 else [v - 1, v + 1]):
                        add(func, n, a, b, str(w).encode(), 'const')
                elif re.fullmatch(rb'0[xX][0-9a-fA-F]+', txt):
                    v = n.value
                    for w in (v - 1, v + 1):
                        add(func, n, a, b, hex(w).encode(), 'const')
            elif isinstance(n, ast.BinOp) and isinstance(n.op, (ast.Add, ast.Sub)):
                between(func, n, n.left, n.right, [(b'+', b'-')] if isinstance(n.op, ast.Add) else [(b'-', b'+')], 'arith')
            elif isinstance(n, ast.BoolOp):
                table = [(b' and ', b' or ')] if isinstance(n.op, ast.And) else [(b' or ', b' and ')]
                between(func, n, n.values[0], n.values[1], table, 'bool')
            elif isinstance(n, ast.UnaryOp) and isinstance(n.op, ast.Not):
                a, b = span(n)
                oa, ob = span(n.operand)
                add(func, n, a, b, b'(' + data[oa:ob] + b')', 'not')
            if isinstance(n, (ast.If, ast.While)):
                a, b = span(n.test)
                add(func, n, a, b, b'(not (' + data[a:b] + b'))', 'negate')
            if isinstance(n, (ast.Assign, ast.AugAssign, ast.Raise)) or (isinstance(n, ast.Expr) and isinstance(n.value, ast.Call)):
                a, b = span(n)
                if not re.match(rb'(self\.|client\.|self\.ctxt\.)?(log|mplogger|logging|access_log|logger)\b', data[a:b]) \
                        and not data[a:b].startswith(b'print('):
                    add(func, n, a, b, b'pass', 'delete')
            if isinstance(n, ast.Return) and isinstance(n.value, ast.Constant) and isinstance(n.value.value, bool):
                a, b = span(n.value)
                add(func, n, a, b, b'False' if n.value.value else b'True', 'return')

    def walk(node, prefix):
        for ch in ast.iter_child_nodes(node):
            if isinstance(ch, (ast.FunctionDef, ast.AsyncFunctionDef)):
                q = prefix + ch.name
                if '%s.%s' % (mod, q) in enc:
                    visit_body('%s.%s' % (mod, q), ch)
                walk(ch, q + '.')
            elif isinstance(ch, ast.ClassDef):
                walk(ch, prefix + ch.name + '.')
            else:
                walk(ch, prefix)
    walk(tree, '')
    return out


def cmd_gen(args):
    enc = encoded()
    muts = []
    for m in MODS:
        muts.extend(gen_module(m, enc))
    # the mutated source must still compile
    good = []
    for mu in muts:
        path = os.path.join(REPO, 'mpgameserver', mu['module'] + '.py')
        data = open(path, 'rb').read()
        new = data[:mu['start']] + mu['new'].encode() + data[mu['end']:]
        try:
            compile(new.decode('utf-8'), path, 'exec')
        except SyntaxError:
            continue
        good.append(mu)
    rnd = random.Random(args.seed)
    rnd.shuffle(good)
    if args.per_function:
        # stratified sample: at most k mutants per function, at most half of them statement deletions
        seen, dels, keep = {}, {}, []
        for mu in good:
            f = mu['func']
            if seen.get(f, 0) >= args.per_function:
                continue
            if mu['op'] == 'delete':
                if dels.get(f, 0) >= (args.per_function + 1) // 2:
                    continue
                dels[f] = dels.get(f, 0) + 1
            seen[f] = seen.get(f, 0) + 1
            keep.append(mu)
        good = keep
    if args.max:
        good = good[:args.max]
    anch = anchors()
    sizes = {}
    for f in glob.glob(os.path.join(VERIF, 'evidence', 'C*.json')):
        d = json.load(open(f))
        sizes[d['property_id']] = len(d['coverage']['functions_encoded'])
    for i, mu in enumerate(good):
        mu['id'] = i
        props = enc[mu['func']]
        fname = 'mpgameserver/%s.py' % mu['module']
        primary = [p for p in props if any(fn == fname and lo - 60 <= mu['line'] <= hi + 60 for fn, lo, hi in anch.get(p, []))]
        rest = sorted([p for p in props if p not in primary], key=lambda p: sizes.get(p, 999))
        mu['props'] = (primary + rest)[:args.props]
        mu['primary'] = primary
    os.makedirs(WORK, exist_ok=True)
    json.dump(good, open(os.path.join(WORK, 'mutants.json'), 'w'), indent=0)
    by = {}
    for mu in good:
        by[mu['op']] = by.get(mu['op'], 0) + 1
    print('%d mutants (%s) in %d functions' % (len(good), by, len({m['func'] for m in good})))


def scratch(mu):
    d = os.path.join(WORK, 'm%d' % mu['id'])
    shutil.rmtree(d, ignore_errors=True)
    os.makedirs(d)
    shutil.copytree(os.path.join(REPO, 'mpgameserver'), os.path.join(d, 'mpgameserver'), ignore=shutil.ignore_patterns('__pycache__'))
    shutil.copytree(os.path.join(REPO, 'tests'), os.path.join(d, 'tests'), ignore=shutil.ignore_patterns('__pycache__'))
    p = os.path.join(d, 'mpgameserver', mu['module'] + '.py')
    data = open(p, 'rb').read()
    assert data[mu['start']:mu['end']].decode('utf-8', 'replace') == mu['old']
    open(p, 'wb').write(data[:mu['start']] + mu['new'].encode() + data[mu['end']:])
    return d


def run_tests(mu):
    d = scratch(mu)
    try:
        r = subprocess.run(['unshare', '-n', 'sh', '-c',
                            'ip link set lo up; cd %s && timeout 300 /venv/bin/python -m pytest -q -x -p no:cacheprovider --timeout=60 2>&1 | tail -3' % d],
                           capture_output=True, text=True, timeout=400)
        out = r.stdout
    except subprocess.TimeoutExpired:
        out = 'TIMEOUT'
    finally:
        shutil.rmtree(d, ignore_errors=True)
    ok = bool(re.search(r'\b89 passed', out)) and 'failed' not in out and 'error' not in out.lower()
    return mu['id'], ok, out.strip().splitlines()[-1][:100] if out.strip() else ''


def cmd_tests(args):
    muts = json.load(open(os.path.join(WORK, 'mutants.json')))
    done = {}
    sp = os.path.join(WORK, 'tests.json')
    if os.path.exists(sp):
        done = {int(k): v for k, v in json.load(open(sp)).items()}
    todo = [m for m in muts if m['id'] not in done]
    with cf.ThreadPoolExecutor(args.j) as ex:
        for n, (i, ok, last) in enumerate(ex.map(run_tests, todo)):
            done[i] = dict(survived=ok, last=last)
            if n % 20 == 0:
                json.dump(done, open(sp, 'w'))
                print('tests %d/%d survivors so far %d' % (n + 1, len(todo), sum(1 for v in done.values() if v['survived'])), flush=True)
    json.dump(done, open(sp, 'w'))
    surv = [m for m in muts if done.get(m['id'], {}).get('survived')]
    json.dump(surv, open(os.path.join(WORK, 'survivors.json'), 'w'), indent=0)
    print('%d of %d mutants keep the suite green' % (len(surv), len(muts)))


COST = dict(C01=9, C02=54, C03=3, C04=66, C05=21, C06=11, C07=27, C08=30, C09=9, C10=69, C11=12, C12=20, C13=39, C14=9, C15=1,
            C16=2, C17=64, C18=22, C19=1, C20=6)      # quick wall seconds at 16 processes, to order the runs
_ENC = None


def plan(mu):
    """which checks to run for a mutant, in which order: every property that encodes the mutated function and is cheap,
    plus the expensive ones whose anchors name the mutated lines; anchored first, then by cost; at most 6"""
    global _ENC
    if _ENC is None:
        _ENC = encoded()
    allp = _ENC.get(mu['func'], mu['props'])
    prim = mu.get('primary') or []
    cand = [p for p in allp if COST.get(p, 99) <= 30 or p in prim[:3]]
    cand.sort(key=lambda p: (p not in prim, COST.get(p, 99)))
    return cand[:5]


def run_checks(job):
    mu, tier = job
    d = scratch(mu)
    res = {}
    try:
        for p in plan(mu):
            try:
                r = subprocess.run(['./check', p, '--tier', tier, '--no-evidence'], cwd=VERIF, capture_output=True, text=True, timeout=2400,
                                   env=dict(os.environ, VERIF_REPO=d, SX_REPLAY_DIR=os.path.join(d, 'replays'), SX_NPROC=os.environ.get('SX_NPROC', '5')))
                first = [l for l in r.stdout.splitlines() if l.startswith('  L') or l.startswith('INCONCLUSIVE')][:1]
                res[p] = dict(rc=r.returncode, first=first[0][:220] if first else '')
            except subprocess.TimeoutExpired:
                res[p] = dict(rc=-1, first='timeout')
            if res[p]['rc'] == 1:
                break           # caught: no need to run the other properties
    finally:
        shutil.rmtree(d, ignore_errors=True)
    return mu['id'], res


def cmd_checks(args):
    surv = json.load(open(os.path.join(WORK, 'survivors.json')))
    rp = os.path.join(WORK, 'results.json')
    done = {}
    if os.path.exists(rp):
        done = {int(k): v for k, v in json.load(open(rp)).items()}
    # bookkeeping that no property speaks about (traffic statistics, profiling counters, latency history) is skipped
    skip = re.compile(r'self\.stats\.(pkts|bytes|latency|received|sent|dropped)|self\.perf|\.latency\b|last_latency')
    todo = [(m, args.tier) for m in surv if m['id'] not in done and not skip.search(m['old'])]
    if args.max:
        todo = todo[:args.max]
    with cf.ThreadPoolExecutor(args.j) as ex:
        futs = [ex.submit(run_checks, job) for job in todo]
        for n, f in enumerate(cf.as_completed(futs)):
            i, res = f.result()
            done[i] = res
            json.dump(done, open(rp, 'w'))
            print('checks %d/%d  m%d %s' % (n + 1, len(todo), i, {p: r['rc'] for p, r in res.items()}), flush=True)


def cmd_recheck(args):
    """re-run the checks (as they are now) for every survivor that is neither caught nor triaged in seeded/mutation/triage.json"""
    surv = json.load(open(os.path.join(WORK, 'survivors.json')))
    rp = os.path.join(WORK, 'results.json')
    done = {int(k): v for k, v in json.load(open(rp)).items()} if os.path.exists(rp) else {}
    tri = json.load(open(os.path.join(VERIF, 'seeded', 'mutation', 'triage.json')))
    todo = [(m, args.tier) for m in surv if (str(m['id']) not in tri or any(r['rc'] not in (0, 1) for r in done.get(m['id'], {}).values())) and not (m['id'] in done and any(r['rc'] == 1 for r in done[m['id']].values()))
            and not done.get(m['id'], {}).get('_rechecked')]
    print('recheck: %d mutants' % len(todo), flush=True)
    with cf.ThreadPoolExecutor(args.j) as ex:
        futs = [ex.submit(run_checks, job) for job in todo]
        for n, f in enumerate(cf.as_completed(futs)):
            i, res = f.result()
            res['_rechecked'] = dict(rc=max([r['rc'] for r in res.values()] or [0]) if any(r['rc'] == 1 for r in res.values()) else 0, first='')
            done[i] = res
            json.dump(done, open(rp, 'w'))
            print('recheck %d/%d  m%d %s' % (n + 1, len(todo), i, {p: r['rc'] for p, r in res.items() if p != '_rechecked'}), flush=True)


def cmd_report(args):
    surv = {m['id']: m for m in json.load(open(os.path.join(WORK, 'survivors.json')))}
    done = {int(k): v for k, v in json.load(open(os.path.join(WORK, 'results.json'))).items()}
    caught = incon = missed = 0
    rows = []
    tri = {}
    tp = os.path.join(VERIF, 'seeded', 'mutation', 'triage.json')
    if os.path.exists(tp):
        tri = json.load(open(tp))
    triaged = 0
    for i, res in sorted(done.items()):
        m = surv[i]
        res = {p: r for p, r in res.items() if p != '_rechecked'}
        rcs = [r['rc'] for r in res.values()]
        if 1 in rcs:
            caught += 1
            verdict = 'caught ' + ','.join(p for p, r in res.items() if r['rc'] == 1)
        elif any(rc not in (0,) for rc in rcs):
            incon += 1
            verdict = 'inconclusive ' + ','.join('%s=%s' % (p, r['rc']) for p, r in res.items() if r['rc'] != 0)
        elif str(i) in tri:
            triaged += 1
            verdict = 'triaged: ' + tri[str(i)]
        else:
            missed += 1
            verdict = 'NOT CAUGHT by ' + ','.join(res)
        rows.append((verdict, m))
    print('survivors checked: %d   caught %d   inconclusive %d   triaged equivalent/out of scope %d   not caught %d' % (len(done), caught, incon, triaged, missed))
    for verdict, m in rows:
        if args.all or not (verdict.startswith('caught') or verdict.startswith('triaged')):
            print('m%-4d %-28s %s:%d %s  [%s] %r -> %r' % (m['id'], verdict[:60], m['func'], m['line'], m['op'], ','.join(m['props']), m['old'][:50], m['new'][:50]))


if __name__ == '__main__':
    ap = argparse.ArgumentParser()
    sub = ap.add_subparsers(dest='cmd')
    g = sub.add_parser('gen'); g.add_argument('--seed', type=int, default=1); g.add_argument('--max', type=int, default=0); g.add_argument('--props', type=int, default=4); g.add_argument('--per-function', dest='per_function', type=int, default=0)
    t = sub.add_parser('tests'); t.add_argument('-j', type=int, default=8)
    c = sub.add_parser('checks'); c.add_argument('-j', type=int, default=3); c.add_argument('--tier', default='quick'); c.add_argument('--max', type=int, default=0)
    r = sub.add_parser('report'); r.add_argument('--all', action='store_true')
    k = sub.add_parser('recheck'); k.add_argument('-j', type=int, default=4); k.add_argument('--tier', default='quick')
    a = ap.parse_args()
    {'gen': cmd_gen, 'tests': cmd_tests, 'checks': cmd_checks, 'report': cmd_report, 'recheck': cmd_recheck}[a.cmd](a)
