#!/bin/sh
# usage: seedcheck.sh <seed-dir-name> <Cnn> [more Cnn...]
# applies /verif/seeded/<name>/patch.diff to /repo, runs the named checks (quick tier, no evidence), restores /repo
S=$1; shift
P=/verif/seeded/$S/patch.diff
cd /repo || exit 3
[ -z "$(git status --porcelain -- mpgameserver)" ] || { echo "/repo not clean"; exit 3; }
git apply --whitespace=nowarn "$P" || { echo "patch does not apply"; exit 3; }
trap 'git -C /repo checkout -- . ; rm -rf /dev/shm/seedcheck-$$' EXIT INT TERM
cd /verif
for C in "$@"; do
  SX_REPLAY_DIR=/dev/shm/seedcheck-$$ timeout 1800 ./check $C --no-evidence > /dev/shm/seedcheck-$$.out 2>&1; rc=$?
  echo "== $S vs $C: exit=$rc  $(grep -E '^C[0-9]+ tier' /dev/shm/seedcheck-$$.out | cut -c1-110)"
  grep -E "^  L|^VIOLATION" /dev/shm/seedcheck-$$.out | cut -c1-260 | head -6
  [ $rc -eq 2 ] && grep -E "^INCONCLUSIVE" /dev/shm/seedcheck-$$.out | cut -c1-300 | head -3
  rm -f /dev/shm/seedcheck-$$.out
done
