#!/bin/sh
# run every claimed check's quick (or given tier) command, print one line each
cd /verif
TIER=${1:-quick}
for p in $(python3 -c "import json;print(' '.join(c['property_id'] for c in json.load(open('MANIFEST.json'))['checks']))"); do
  s=$(date +%s); out=$(./check $p --tier $TIER 2>&1); rc=$?; e=$(date +%s)
  echo "$p rc=$rc $((e-s))s $(echo "$out" | grep -E '^C[0-9]+ tier' | cut -c1-120)"
  [ $rc -ne 0 ] && echo "$out" | grep -E "VIOLATION|INCONCLUSIVE" | cut -c1-300 | head -5
done
