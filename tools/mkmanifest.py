#!/usr/bin/env python3
"""Regenerate /verif/MANIFEST.json from the table below (keeps it schema-valid at all times)."""
import json
import os

VERIF = os.path.dirname(os.path.dirname(os.path.abspath(__file__)))

TECH = ('solver-based checking of the real code: bounded symbolic execution of /repo\'s Python source '
        '(sx proxy engine over z3), counterexamples replayed on the uninstrumented package')

# property -> (level text, level_note, design_ref)
CLAIMED = {
    'C08': ('Every obligation (ring laws of SeqNum, diff/ordering over half the ring, BitField.insert/contains '
            'against a ghost receive set for widths 8..256, ack/ack_bits naming through the real header codec and '
            '_handle_ack_bits, the _recv_datagram gate accepting a genuine datagram up to the window edge exactly when it was not received before, the message gate delivering a message (APP / APP_FRAGMENT) at any offset -32767..32767 from an arbitrary 256-bit window exactly when it was not received before and never flagging a never-received message older than the window) is an SMT query over the whole value domain on every execution path of the real source; '
            'one inductive window step from an arbitrary state covers insertion histories of any length; at the datagram gate a damaged copy (same clear-text header, other ciphertext) that arrives first is not accepted and not recorded in the window. A complementary API-only lemma (L8.8) builds BitField through its constructor and inserts 3 numbers at representative offsets around every window boundary at both ends of the ring: refused exactly when received before inside the window, contains() agrees - this one does not depend on the representation the state-injecting lemmas write.',
            'Trusted: the sx engine (proxy semantics for int/bit operations, validated by running the repo tests '
            'concretely through it), z3, the struct model. Bounds: values are the full 16-bit domain, offsets '
            '|d| <= 32767 as the statement says; window widths enumerated (quick 8/32/256, thorough every multiple of 8).',
            'DESIGN.md §6 C08'),
    'C09': ('Header and packet codecs are executed symbolically over all field values, message seqs/types and opaque '
            'payloads of symbolic length (CRC form and AEAD form); packing is executed from an arbitrary queue with a '
            'symbolic MTU (512..1500), the connection object constructed before or after the MTU it packs under was set: every datagram is proven <= MTU-28, messages that fit together are proven to '
            'leave together, and construction is proven never to raise or lose messages, including 255/256/300 tiny '
            'messages per tick; whatever send() queues for a payload of any length is admitted by the packer for every MTU (the queue drains, L9.6). The retransmission path is driven too: hundreds of unacknowledged BEST_EFFORT messages that come due in one tick are re-sent once each under the same count and size limits.',
            'Trusted: sx engine, struct/crc/AEAD models (crc32 uninterpreted, AEAD ideal). Bounds: <= 3 (thorough 6) '
            'messages per packet in the codec round trip, queue <= 3 new + 2 resend messages (thorough 4+2) in the MTU lemma, '
            'tiny-message instances n in {2,255,256,300} (thorough up to 600); payload lengths free within the stated ranges.',
            'DESIGN.md §6 C09'),
    'C06': ('The real send()/FragmentSender.build is executed on an opaque payload of symbolic length with a symbolic MTU: '
            'the queued fragment bodies are proven (rope equality) to concatenate to the payload, each to fit a datagram, '
            'payloads up to the limit to stay unfragmented, payloads above the fragmentation limit to be refused and a payload of exactly the limit to be accepted (limit neighbourhood with MAX_FRAGMENTS lowered to 3/8 for the unrolling); the MTU is set after an optional earlier setMTU call; a timed-out fragment is re-queued byte-identical to the original fragment message even if the process-wide MTU was changed while it was in flight, and under the message sequence number it was first sent under with the message counter anywhere on the ring. '
            'One reassembly step of the real _recvAppFragment from an arbitrary receiver context proves slot-written-once, '
            'completion <=> all slots filled, delivered payload == concatenation, other ids untouched (hence order and '
            'duplicate independence for histories of any length); an end-to-end scenario feeds the real sender\'s fragments '
            'to the real receiver under every order-with-duplicates schedule within the bound; the re-queued fragment '
            'after a timeout is proven byte-identical to the original.',
            'Trusted: sx engine, rope equality (structural, sound for "equal"), struct model, clock model. Bounds: '
            '<= 3 (thorough 8) fragments in the split lemma, <= 3 (thorough 6) slots in the step lemma, <= 3 fragments / 4 '
            'deliveries (thorough 4/6) in the scenario. Context expiry (wall-clock based cleanup) is part of C05, not of this claim.',
            'DESIGN.md §6 C06'),
    'C18': ('The real serializeHeader/serializeDataHeader output is compared byte for byte (rope equality) with an '
            'independently written RFC 6455 layout for every flag combination, opcode, mask bit, masking key and payload '
            'length 0..2^63-1, and parsed back by the real readHeader/readDataHeader; unmasking is proven per byte; '
            'k masked client frames cut at symbolic positions are fed through the real WebSocketTemporaryHandler and '
            'proven to be delivered once each, in order, unmasked, without exceptions; frames with a 16-bit or 64-bit extended length cut inside their header neither raise nor deliver early; the application may close the websocket from inside a callback at any frame, later frames are still delivered; handler.send(text)/close() each write exactly one RFC frame (L18.6).',
            'Trusted: sx engine, struct model. Bounds: header codec unbounded in the length value; masking payload <= 8 '
            '(thorough 12) symbolic bytes; segmentation k <= 2 frames, payload <= 2 bytes, <= 2 cuts (thorough k <= 3, <= 3 bytes, '
            '<= 2 cuts) - payload content is irrelevant to framing, only boundaries matter. Continuation frames are not '
            'implemented by the library and not in the statement.',
            'DESIGN.md §6 C18'),
    'C20': ('Finite domain, decided exhaustively: every sequence of <= 4 (thorough 5) operations from an 11-letter alphabet '
            '(register/unregister of four resource objects: class and string annotations, one conflicting class, two instances of one class; dispatch of '
            'three message classes) is executed on the real dispatcher classes (both server and client variants) and compared '
            'with a reference map: exactly the registered handler is called once with the argument objects unchanged, unknown '
            'classes raise DispatchError and call nothing, duplicate registration is refused, unregister removes exactly the '
            'resource\'s handlers and allows re-registration. A registered handler that raises (7 exception types, KeyError among them) was invoked exactly once and its own exception comes out of dispatch: DispatchError means that nothing was registered and nothing was called (L20.3).',
            'Trusted: sx engine (used here only as an exhaustive case enumerator: every choice is an engine decision). '
            'Bound: sequence length 4 / 5; state space of the dispatcher is a map over 3 class names, so length 5 reaches every '
            'reachable state.',
            'DESIGN.md §6 C20'),
    'C16': ('Direct SMT encoding of the object the real code produces: for every pattern of the documented grammar the regex '
            'string returned by the real Router.patternToRegex is parsed with CPython\'s own re parser and translated node for '
            'node into a z3 regular-expression term; two language inclusions over an unbounded symbolic path are decided per '
            'pattern: must(p) <= L(regex) and, with capture groups bracketed by marker characters, L(regex<>) <= may<>(p), so '
            'both the match set and every possible binding are covered. Route selection runs the real getRoute/dispatch with '
            'pattern matching answered by the solver: first registered matching route of the method, else None/404, also when the routes are registered in two batches with a request in between.',
            'Trusted: z3 sequence/regex theory, the sre->z3 translation (only the constructs the router emits; anything else is '
            'Unsupported = inconclusive), Python re implementing its own parse tree. Bounds: patterns <= 3 (thorough 4) segments over '
            '{a, ab, a.b, :x} + one trailing ? / + / * parameter; route tables <= 2 (thorough 3) routes; the path is unbounded but '
            'ranges over non-control characters (a request line cannot carry control characters such as \\n). Where the '
            'documentation leaves a reading open (empty interior segments inside + / * captures, the tolerated trailing slash '
            'inside the capture) may(p) accepts both readings.',
            'DESIGN.md §6 C16'),
    'C17': ('The real path_join_safe is executed on text ropes: the file name is k+1 segments joined by k separators, every '
            'separator symbolically "/" or backslash, every segment empty or an arbitrary non-empty z3 string without separators '
            '(so "..", ".", drive-like prefixes, unicode and any length are all instances); os.path.join/abspath/normpath are '
            'CPython\'s own pure-Python posixpath bodies read from the stdlib at run time and executed by the same engine; root '
            '(absolute, relative, "/", with/without trailing separator) and cwd are symbolic too. On every path the result is '
            'proven to be ValueError or a normalised absolute path that equals the resolved root or starts with root + "/". Library calls on the name are executed on the rope too (str.replace/split, urllib.parse.unquote through a solver-backed model with <= 2 escapes per path, ASCII).',
            'Trusted: sx engine, text-rope operations (structural, falling back to z3 string theory), posixpath.py as the '
            'specification of os.path on POSIX (the C accelerator _path_normpath is assumed equivalent to the pure-Python fallback '
            'it replaces). Bounds: name <= 4 (thorough 6) separators; root <= 1 (thorough 2) separators; cwd depth <= 1 (2). '
            'String-level property: symlinks and Windows ntpath are outside.',
            'DESIGN.md §6 C17'),
    'C19': ('Data flow around uninterpreted primitives: the real hash_password/verify_password run on an opaque password of '
            'symbolic length with os.urandom returning arbitrary bytes, SHA-256/scrypt as uninterpreted functions and base64 as an '
            'invertible opaque encoding. Proven: the right password verifies and verify re-derives with exactly the salt and '
            'parameters stored in the hash; every other password - a proper prefix, a proper extension, or one whose first differing byte sits at any offset and is followed by any tail, lengths unbounded, or the implementation\'s own intermediate value sha256(p) - verifies only if SHA-256/scrypt collide (uninterpreted functions obey f(a)==f(b) <=> a==b under the collision-freedom switch, with rope equality deciding a==b); each hash draws and embeds its own '
            '16 fresh random bytes; for every hash string of 0..6 arbitrary fields the outcome is False, ValueError or TypeError, '
            'and True only when the four fields decoded and the KDF comparison itself matched.',
            'Trusted/assumed: everything cryptographic (SHA-256 and scrypt are uninterpreted; "every other password does not '
            'verify" holds only under their collision freedom, which is assumed, not shown); the base64 and struct models; '
            'sx engine. Timing and cost of attacker-chosen scrypt parameters are outside.',
            'DESIGN.md §6 C19'),
    'C13': ('Value shapes (type trees) are enumerated, every leaf value is a solver variable: unbounded mathematical ints (all width '
            'boundaries, signs and the 64-bit limits fall out of the path split of serialize_int and the struct range checks), Bool '
            'terms, float tokens (NaN and out-of-float32-range flags symbolic), opaque str/bytes of symbolic length (utf-8 length '
            'symbolic between chars and 4*chars), enum members by symbolic index. The real serialize_value and Serializable.loadb '
            'run through the BytesIO/struct models; proven per path: deep equality (tuples as lists), stream position == len(encoding), '
            'trailing bytes untouched, two concatenated encodings decode in sequence, and a refusal only for values outside the '
            'documented domain. Message classes derived from another message class decode to their own class for every order of first use (L13.2); list/set/dict are refused exactly above MAX_ARRAY_LENGTH and round-trip up to it (constant lowered to 2/4 for the unrolling, L13.3); two enums that share their short name keep their own types (L13.4).',
            'Trusted: sx engine, struct/BytesIO models, rope/text equality, float32 packing as an uninterpreted token. Bounds: type trees '
            'of depth <= 2 plus a selection of depth 3, container arity <= 2 (thorough 3); MAX_ARRAY_LENGTH is exercised with the constant lowered (L13.3). Fields inherited from another message class are not part of a class\'s wire format (library design) and are not compared.',
            'DESIGN.md §6 C13'),
    'C14': ('n fully symbolic bytes are decoded by the real deserialize_value with the real registry (no stubs): on every path '
            'the decoder returns a value built from supported/registered types or raises an ordinary Exception, within a step bound '
            '(non-termination is reported as a violation and replayed under an alarm), with work and number of stream reads linear in n. '
            'A per-container lemma runs each length-prefixed reader with an arbitrary declared length (any 41-bit int) against a '
            'stream that actually holds 0..k elements: the loop count is bounded by the elements present, never by the declared '
            'length, over-limit lengths are refused, reads never return more than is present, and a successful read leaves the position past its own length prefix (progress: the measure of the induction over remaining bytes; negative declared lengths included). The three handshake entry points run '
            'on arbitrary message bytes (symbolic bytes, or the right type id around arbitrary fields).',
            'Trusted: sx engine, BytesIO/struct models, ideal crypto model for the key/signature parsing steps. Work is counted in '
            'loop iterations, function entries and stream reads of the Python code, not in bytes allocated by CPython. Bounds: n <= 4 '
            '(thorough 6) symbolic bytes; <= 3 (thorough 6) elements present. loadz/load_persistant (documented private) are outside; '
            'RecursionError is an ordinary exception.',
            'DESIGN.md §6 C14'),
    'C15': ('Annotation shapes are enumerated (basic types, nested Serializable, enum, List/Set/Dict/Tuple of these with int, str '
            'or enum keys, sizes 0..2 and None); every leaf value is symbolic (unbounded ints, opaque strings, float tokens with a '
            'symbolic NaN flag, Bool terms, enum members by symbolic index). The real toJson/fromJson/dumps/loads are executed; '
            'json.dumps/loads are modelled as the identity on plain JSON data with object keys stringified (str(int) <-> int(str) '
            'inverse) and a TypeError exactly where json.dumps would refuse. Proven per path: field-wise deep equality for both '
            'routes, containers come back with their annotated type, toJson yields only dict/list/str/int/float/bool/None; a class derived from another message class and its base round-trip field for field whichever went through JSON first (L15.3); an enum with string values that spell the names of other members round-trips to the same members (L15.4); ten ordered pairs of classes that use the same field name with different annotations round-trip one after the other exactly as alone (L15.2).',
            'Trusted: sx engine, the json model (its contract is the documented behaviour of the json module on plain data). '
            'Outside: bytes fields (not JSON), lower-case enum member names (documented), Tuple[T, ...], more than one level of generics.',
            'DESIGN.md §6 C15'),
    'C05': ('Liveness is decomposed into safety/progress lemmas, each decided by the solver on the real code with symbolic payload '
            'length, MTU, clock, timeouts and send times: both send_guaranteed APIs, UdpClient.send with RETRY_ON_TIMEOUT and with its default mode accept every length and queue messages that '
            'reassemble to the payload with a retry obligation; every MTU is set after an optional earlier setMTU call with another arbitrary value; the queue drains one datagram per tick for every length and MTU '
            '(no size is left unsent); a guaranteed message is always queued, in flight or acknowledged and a timeout re-queues the '
            'identical (seq, type, payload); every datagram older than the message timeout is resolved by the next tick (client and '
            'server variants) and none earlier; a genuine fresh datagram delivers all its messages through the real codec, and a message that was not received before is delivered at any ring offset from an arbitrary message window (late retransmissions); a bounded '
            'two-endpoint scenario with symbolic losses in both directions followed by a healed network delivers exactly once. '
            'The lemma "an incomplete fragment context is kept while retransmission is possible" holds only up to the context age '
            'limit: known finding F6c (open), its complement is proven.',
            'The final composition (therefore eventually delivered) is a paper argument written in the evidence explanation, not machine '
            'checked. Trusted: sx engine, ideal AEAD, clock = exact non-decreasing reals. Bounds: <= 2 (thorough 5) fragments in the API '
            'lemma, <= 3 (thorough 8) in the drain lemma, <= 2 (3) pending datagrams, scenario of 5 (7) ticks. Outside: starvation by an '
            'application that saturates the queue forever.',
            'DESIGN.md §6 C05'),
    'C07': ('One resolution step of the real _handle_ack_bits from an arbitrary pending table (symbolic ring offsets over the whole '
            'half ring, ack_bits, send times, clock and message timeout) proves: every pending datagram is resolved at most once; '
            'callback(True) exactly for the datagrams named by ack/ack_bits (so forged or stale offsets never acknowledge); '
            'callback(False) only when the message timeout has elapsed; acked+timeouts counts each resolution once. User-callback '
            'counting is proven on the real send/_build_packet/_handle_ack/_handle_timeout for unretried sends (the callback lives in '
            'exactly one place and fires once), for guaranteed sends carried by several datagrams because the round trip exceeds the '
            'resend interval (every ack/timeout/pending combination: exactly once, True), and for fragmented sends (once, after all '
            'fragments are resolved). That the peer accepted what it acknowledged: one receive step from an arbitrary 256-bit message window proves that a datagram the receiver accepts (hence acks) delivers its never-before-received message whatever the distance of its message seq from the newest one seen (L7.4); a two-endpoint scenario (guaranteed single / fragmented send, symbolic losses in both directions, then a healed network) shows at every tick that True is reported only once the peer holds the whole message and that the callback fires exactly once (L7.5); the rest is C01 (headers authenticated) and C08 (ack '
            'fields name exactly the received datagrams). The retry argument of the guaranteed / unretried sends is passed in every legitimate spelling (enum member, plain int as UdpClient.send documents it, an equal but distinct enum instance).',
            'Trusted: sx engine, exact-real clock. Bounds: <= 2 (thorough 3) pending datagrams in the step lemma, 2..3 (4) carrying '
            'datagrams, <= 2 (3) fragments. BEST_EFFORT callbacks are excluded by the statement.',
            'DESIGN.md §6 C07'),
    'C04': ('A genuine datagram (really produced and sealed by the peer object) whose sequence number the receiver has already '
            'seen - at any offset 0..32767 behind the newest, from an arbitrary symbolic window state, with the history beyond the '
            'window represented by a ghost Boolean - is proven to be rejected, counted as dropped once, and to leave the whole semantic '
            'state (windows, liveness clock, pending tables, queues, key, status) unchanged; a fresh datagram carrying an already '
            'received message seq (APP or APP_FRAGMENT, any offset) is proven not to deliver or store it again, except in the open '
            'known finding F4b (more than 256 newer messages in between), whose complement is proven; a bounded two-endpoint scenario '
            'delivers three recorded datagrams (any retry modes, piggy-backed retransmissions) in every order with repeats; both timeout re-queue paths (RetrySender, FragmentSender.callback) are proven to re-queue the identical message under its original message sequence number. '
            'Violations are replayed through the public API (deliver, d newer datagrams, deliver again). The application-facing ends are covered too: UdpClient.hasMessages/getMessage/getMessages hand each delivered message out once for every mix of the getters (L4.5), and the real server loop hands each message of a batch to the handler at most once whatever subset of them the handler raises on (L4.6). Through the API only (nothing injected): a message whose ack is withheld is retransmitted behind a burst of k newer messages (k on both sides of the 32-datagram mark, inside the 256-message window) and is delivered once (L4.7).',
            'Trusted: sx engine, ideal AEAD, C08 (window exactness inside the window). Retransmission identity (same seq/type/payload) '
            'is C05 L5.4 / C06 L6.4. Bounds: one pending entry in the step lemmas; scenario of 3 datagrams and <= 4 (thorough 6) deliveries.',
            'DESIGN.md §6 C04'),
    'C01': ('One step of the real PacketHeader.from_bytes/_recv_datagram (Packet.from_bytes, windows, ack processing, message '
            'dispatch) from an arbitrary symbolic endpoint state, for both endpoint kinds and each of the eight packet types: the '
            'attacker datagram has every header field free, arbitrary body and trailing bytes (read symbolically by the parser) and '
            'a CRC the attacker computed correctly; the AEAD is ideal (decrypt succeeds only on a ciphertext blob the peer object '
            'really produced under the same key, nonce and associated data). Proven: not accepted, semantic state (key, status, '
            'liveness clock, both windows, queues, pending sends, token, fragments) unchanged, nothing acknowledged, timed out or '
            'delivered, counted as dropped. A second lemma takes a genuine sealed datagram from the real peer object and lets the '
            'attacker rewrite any header field, cut the ciphertext anywhere and append junk: never accepted. Keyless endpoints: '
            'nothing but the single expected hello is dispatched, no application message or fragment, no status change. At the server gate (real UdpServerThread loop): a forged CRC datagram of any type from the address of a half-open connection that already holds a key leaves the connection object, key, token and status untouched and the genuine handshake completes (L1.4); the same forgery against an established connection that has been quiet for any time below the connection timeout leaves the connection in the pool, raises no disconnect event and the next genuine message is delivered (L1.6). The arbitrary state includes every integer counter of the connection and its statistics object (also counters the harness does not know by name), so threshold logic fed by earlier hostile datagrams is part of the step. A clear-text datagram that carries a genuine hello followed by a second message never gets that second message to the application (L1.5, real hello handler).',
            'Trusted/assumed: AES-GCM is an ideal AEAD and CRC-32 is public (real-world strength of AES-GCM is not shown); sx engine, '
            'struct model. Bounds: <= 2 inner messages, body <= 40 + tail <= 24 bytes (every byte the parser reads is symbolic), one '
            'pending datagram; genuine datagram of one message <= 200 bytes. Identical copies are replays (C04). The server gate is C10/C11.',
            'DESIGN.md §6 C01'),
    'C03': ('One _build_packet / ServerClientConnection.update step from an arbitrary state (clocks, sequence number, windows, '
            'status, queued messages of any type and retry mode) proves the rate cap (a packet only when the send interval has '
            'elapsed), the exact ring successor, last_send_time := t, and that header bytes 0..11 are (direction magic, int(t), seq, '
            'ack) with the magic a function of the endpoint role only. An arithmetic lemma, posed with the send interval read from '
            'the instrumented object on every run, shows that packets at least wraps*65535 intervals apart have different whole '
            'seconds, and that the ring has no shorter period; the spacing invariant behind it (consecutive emissions at least one send interval apart) is a solver-checked inductive step (L3.2). Every emission path (client _encode_packet, UdpServerThread.send, '
            'TwistedServer.sendPacketsUnsafe) is proven to call AES-GCM exactly once with (session key, hdr[0:12], hdr[0:20], whole '
            'message area) for every packet type but the signed server hello, with output header ++ ciphertext and no payload blob '
            'outside the ciphertext; send() on a not-yet-connected connection queues nothing, so no application message can share a '
            'clear server-hello packet.',
            'The induction over a send history (gaps add up) is the paper step in the evidence explanation. Trusted: sx engine, ideal '
            'AEAD bookkeeping, exact-real non-decreasing clock below 2^32 s. Outside: clocks that step backwards, float rounding, '
            'peers that hold the key and deviate from the code, reuse of one key across sessions.',
            'DESIGN.md §6 C03'),
    'C12': ('All times and settings are symbolic reals. Through the real UdpClient.update and ServerClientConnection.update an idle '
            'CONNECTED endpoint is proven to emit a datagram at a tick iff more than the configured keep-alive interval has elapsed and '
            'to restart both send clocks; timedout(T) is proven equivalent to silence >= T and a genuine datagram to reset the '
            'liveness clock; the client reports DROPPED exactly after more than 5 s of silence, from CONNECTED and from DISCONNECTING; an unanswered connect attempt (connect() at an arbitrary instant, then two UdpClient.update ticks at arbitrary later instants) stays CONNECTING until the configured timeout and ends '
            'DISCONNECTED for good afterwards, with and without a callback, the callback fired once with False; both endpoints taken through the real handshake and then left idle for n ticks stay CONNECTED, emit per keep-alive interval and never call the connect callback again (L12.8); '
            'client setters called before, after or around connect() never raise and the values are observed at the thresholds of the '
            'real emission / timeout paths; an LRA lemma gives keep-alive + tick + jitter < timeout => no timeout between arrivals; configured connection / temp-connection timeouts and keep-alive interval are observed at their thresholds inside the real server loop (L12.7).',
            'The statement\'s "indefinitely" is the induction over emissions (paper step). Trusted: sx engine, exact-real clock, socket/'
            'select stand-ins. The server-side sweep (silent client removed after connection_timeout, settings read by the loop) is '
            'decided in C10. Outside: float rounding, wall-clock jumps.',
            'DESIGN.md §6 C12'),
    'C02': ('With ideal ECDSA and uninterpreted ECDH/HKDF the real _recvServerHello (directly and through a CRC datagram) is run '
            'against every (root key field, payload, signature) combination an active attacker can assemble - pinned / foreign / garbage '
            'key field, genuine or attacker-made key-exchange parameters, genuine signature, signature by a foreign key, garbage, '
            'empty: the client connects or adopts a key only for parameters signed by the pinned key, and otherwise is left '
            'unconnected with no key, no token, no challenge response and no success callback. The honest three-datagram handshake runs '
            'through the real code on both sides (real serializers, codec, key derivation calls): both ends hold the same 16-byte key '
            'term and the same token, the challenge response is sealed under that key, exactly one connect event. Promotion of a temp '
            'connection is proven equivalent to: CHALLENGE_RESP type, sealed under this connection\'s key, carrying the issued token; '
            'other pending handshakes untouched; connect at most once. Two hellos delivered in one connect attempt (forged then forged or genuine, same or new datagram) are judged independently: a refused hello does not weaken the pin. A keyless server-side connection fed one clear-text attacker datagram (any header type, 1-2 inner messages of any type: hello of any protocol version, challenge response with any token, junk) is never promoted, raises no connect event, and starts a key exchange only from the single client hello. The pinned key is never replaced by anything a hello carries (asserted for every combination), and survives a reconnect of the same UdpClient: a hello signed by a foreign key is still refused afterwards (L2.5). After the handshake a client that holds the session key does not process a clear-text SERVER_HELLO-typed datagram again (free header, arbitrary body, valid CRC: not accepted, key / token / status unchanged - L2.6, the harness of C01 L1.1).',
            'Assumed, not shown: hardness of ECDSA/ECDH/HKDF/AES-GCM (ideal models, listed in the evidence); distinct keys have distinct '
            'encodings. The TOFU mode (no pinned key) is excluded by the statement. Reordering/duplication/loss of handshake datagrams '
            'at the server gate is part of C10.',
            'DESIGN.md §6 C02'),
    'C10': ('The unmodified UdpServerThread.run() is executed single-threaded under the engine and driven from inside (the handler\'s '
            'per-tick update event and Condition.wait call back into the harness, ctxt._active is harness-owned, server.sleep is a no-op); '
            'datagrams enter through the real TwistedServer.datagramReceived. Two addresses: client B performs an honest handshake and '
            'sends a message; for client A every action sequence from {reply, nothing, garbage (3 kinds), duplicate, app message, '
            'peer disconnect, reconnect from the same address, 6 s silence, server-side disconnect} within the bound is explored, '
            'crossed with handler exceptions in connect/message/disconnect/update and shutdown after tick 4 or 8. On every path: no '
            'exception leaves the loop; per client object connect once, then only its own messages (each at most once), then '
            'disconnect once; starting first, shutdown last; pool empty after shutdown; connect only for a client that completed the '
            'handshake; a client that sent DISCONNECT leaves the pool within a few ticks, not only at shutdown; B unaffected by A. A peer that holds the session key but sends sealed application data (typed APP or CHALLENGE_RESP, one or two messages) instead of the challenge response, and keeps talking, causes no handler event at all and never enters the connection pool (L10.5). A rejected datagram (a replay of something already received, at any offset) does not refresh the liveness clock the silence sweep reads, so replays cannot postpone the disconnect of a dead client (L10.6, the harness of C04 L4.1). get_token is decided for every RNG outcome against arbitrary tokens in both pools; the '
            'reactor-thread entry points are proven never to reach a handler method.',
            'Threads: the engine is single-threaded; "all handler events on one thread" is replaced by the containment lemma (entry points '
            'never call the handler; every other call site is inside run()). Trusted: sx engine, ideal crypto, inert threading/reactor '
            'stand-ins; inside the loop harness get_token hands out distinct values (the generator is L10.3). Bounds: 8 ticks, 2 '
            'addresses, action alphabet and positions as listed in the evidence.',
            'DESIGN.md §6 C10'),
    'C11': ('The real TwistedServer.datagramReceived and the reference socket loop _UdpServer.run are executed on arbitrary bytes of every length up to the receive size (short '
            'symbolic prefixes, 20 symbolic header bytes + opaque rest, fully opaque) from an arbitrary host string (z3 string) with an arbitrary block list (two symbolic entries + one fixed): they never raise, never reply, for a '
            'block-listed address neither queue nor wake the loop, and a well-formed datagram from any other host is handed to the server thread. The unmodified server loop (driver of C10) runs with an '
            'established honest client B while address A - unknown, mid-handshake or connected - injects a hostile datagram (forged '
            'header of any type with valid CRC and arbitrary body bytes, a hello carrying arbitrary message bytes, an oversized datagram '
            'of any non-hello type, a truncated copy of a genuine datagram, a header announcing an empty message area followed by 16 arbitrary tag bytes): no exception leaves the loop, the handler lifecycle stays '
            'intact, B\'s message is still delivered, B\'s key/status/token/fragments are untouched, and an unconnected address never '
            'receives more bytes than it sent. Anti-amplification with a symbolic MTU and attacker-chosen padding: a server hello is '
            'queued only for a hello of the full padded size, it is strictly smaller than that hello, and a connection that has not '
            'completed the handshake emits nothing else.',
            'Trusted: as C10 (single-threaded driver, inert stand-ins, ideal crypto). Bounded decode work is C14. Bounds: one (thorough: two, for the handshaking and the connected address) '
            'hostile datagram(s) per run with <= 5 arbitrary body bytes / 3 arbitrary hello-message bytes; 9 ticks. Outside: OS socket '
            'buffers, memory growth of the input queue under flooding, thread liveness as such.',
            'DESIGN.md §6 C11'),
}

NOT_YET = 'check not built yet in this round (planned: see DESIGN.md §6); not claimed'


def main():
    props = [json.loads(l)['id'] for l in open(os.path.join(VERIF, 'properties.jsonl'))]
    checks = []
    na = []
    extra_na = globals().get('NOT_APPLICABLE', {})
    for p in props:
        if p in CLAIMED:
            text, note, ref = CLAIMED[p]
            checks.append(dict(
                property_id=p,
                quick_cmd='./check %s --tier quick' % p,
                thorough_cmd='./check %s --tier thorough' % p,
                evidence_file='evidence/%s.json' % p,
                replay_cmd_template='./check replay {path}',
                engine='sx',
                level_claimed=dict(category='other', text=text, design_ref=ref),
                level_note=note,
                technique=TECH))
        else:
            na.append(dict(property_id=p, reason=extra_na.get(p, NOT_YET)))
    man = dict(
        version=1,
        setup_cmd='./setup.sh',
        hooks=dict(guard='MPGAMESERVER_VERIF', enable='none needed: instrumentation happens at load time on the parsed source '
                   '(sx/loader.py); /repo carries no guarded code',
                   baseline_off_cmd='cd /repo && /venv/bin/python -m pytest -ra -q -p no:cacheprovider --timeout=900 --continue-on-collection-errors',
                   source_commits=[], add_only=True),
        engines=[dict(name='sx', path='sx/', serves_properties=sorted(CLAIMED),
                      kind_free_text='source-level symbolic execution of the repository\'s Python by proxy objects over z3 '
                                     '(path exploration by re-execution, process-pool sharding), plus direct SMT encodings '
                                     'of objects the real code produces (router regexes)')],
        checks=checks,
        not_applicable=na,
        notes='Exit codes: 0 held within bounds; 1 + VIOLATION line = counterexample reproduced on the real package; '
              '2 = inconclusive (unknown/unsupported/timeout/non-reproducing model), never reported as success. '
              'Known findings: known_findings.json.')
    json.dump(man, open(os.path.join(VERIF, 'MANIFEST.json'), 'w'), indent=1)
    print('MANIFEST.json: %d checks, %d not_applicable' % (len(checks), len(na)))


if __name__ == '__main__':
    main()
