#!/bin/sh
# usage: seedscratch.sh <seed-dir-name> <Cnn> [check args...]
# like seedcheck.sh but on a scratch copy (VERIF_REPO), so /repo is untouched and runs can proceed in parallel
S=$1; C=$2; shift 2
D=/dev/shm/verif-seed-$$
mkdir -p $D && cp -r /repo/mpgameserver $D/ && cp -r /repo/tests $D/ 2>/dev/null
( cd $D && git init -q . && git apply --whitespace=nowarn /verif/seeded/$S/patch.diff ) || { echo "patch does not apply"; rm -rf $D; exit 3; }
cd /verif && SX_REPLAY_DIR=$D/replays VERIF_REPO=$D timeout 3000 ./check $C --no-evidence "$@" > $D/out.txt 2>&1; rc=$?
echo "== $S vs $C $*: exit=$rc  $(grep -E '^C[0-9]+ tier' $D/out.txt | cut -c1-140)"
grep -E "^  L|^VIOLATION" $D/out.txt | cut -c1-300 | head -8
[ $rc -eq 2 ] && grep -E "^INCONCLUSIVE" $D/out.txt | cut -c1-400 | head -4
[ $rc -gt 2 ] && tail -5 $D/out.txt
rm -rf $D
exit $rc
