#!/bin/sh
# usage: seedintake.sh <Cnn> <slug> [worktree]  : verify <worktree>/seed (default /tmp/wt/<Cnn>) in a fresh worktree,
#        copy to /verif/seeded/<Cnn>-<slug>, run the property's check against it
C=$1; SL=$2; W=${3:-/tmp/wt/$C}
[ -f $W/seed/patch.diff ] || { echo "no patch in $W/seed"; exit 3; }
/verif/tools/seedverify.sh $W > /tmp/seedintake-$C.log 2>&1
grep -E "^exit=|passed|failed|does not apply|changed" /tmp/seedintake-$C.log | tr '\n' ' '; echo
D=/verif/seeded/$C-$SL
mkdir -p $D && cp $W/seed/* $D/ 2>/dev/null
/verif/tools/seedcheck.sh $C-$SL $C
