#!/bin/sh
# usage: seedintake2.sh <Cnn> <slug> <worktree> : like seedintake.sh but the check runs on a scratch copy (seedscratch.sh),
# so /repo is never patched and several intakes / other runs can proceed at the same time
C=$1; SL=$2; W=$3
[ -f $W/seed/patch.diff ] || { echo "no patch in $W/seed"; exit 3; }
/verif/tools/seedverify.sh $W > /tmp/seedintake-$C.log 2>&1
grep -E "^exit=|passed|failed|does not apply|changed" /tmp/seedintake-$C.log | tr '\n' ' '; echo
D=/verif/seeded/$C-$SL
mkdir -p $D && cp $W/seed/patch.diff $W/seed/demo.py $W/seed/meta.json $D/ 2>/dev/null
SX_NPROC=${SX_NPROC:-6} /verif/tools/seedscratch.sh $C-$SL $C
