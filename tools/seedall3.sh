#!/bin/sh
# run every seeded change against the check of its own property on scratch copies, P at a time (default 4, 4 worker
# processes each); write seeded/RESULTS.txt.  usage: seedall3.sh [P] [pattern]
cd /verif
P=${1:-4}; PAT=${2:-C}
T=$(mktemp -d /dev/shm/verif-seedall-XXXX)
ls -d seeded/C*/ | xargs -n1 basename | grep -- "$PAT" | SX_NPROC=${SX_NPROC:-4} xargs -P $P -I{} sh -c '
  n={}; C=${n%%-*}
  out=$(/verif/tools/seedscratch.sh $n $C 2>&1)
  rc=$(echo "$out" | grep -o "exit=[0-9]*" | head -1)
  lem=$(echo "$out" | grep -E "^  L|^INCONCLUSIVE" | head -1 | cut -c1-200)
  echo "$n $rc $lem" > '$T'/$n.txt'
if [ "$PAT" = "C" ]; then cat $T/*.txt > seeded/RESULTS.txt; else cat $T/*.txt; fi
rm -rf $T
