#!/usr/bin/env python3
"""write the `verified` / `check_result` fields of seeded/*/meta.json from seeded/RESULTS.txt (produced by seedall.sh)"""
import json
import os
import re

VERIF = os.path.dirname(os.path.dirname(os.path.abspath(__file__)))
INVALID = {'C12-r2-last-recv-time-bin': 'NOT a valid seeded change: tests/server_test.py::Server2TestCase::test_server_client_timeout fails '
                                        'with it in 3 of 3 runs of the unedited suite; kept only as an extra mutant'}
for line in open(os.path.join(VERIF, 'seeded', 'RESULTS.txt')):
    m = re.match(r'(\S+) (exit=\d+)\s*(.*)', line.strip())
    if not m:
        continue
    name, rc, first = m.groups()
    p = os.path.join(VERIF, 'seeded', name, 'meta.json')
    try:
        d = json.load(open(p))
    except Exception:
        d = {}
    d.setdefault('property', name.split('-')[0])
    if name in INVALID:
        d['verified'] = INVALID[name]
    else:
        d.setdefault('verified', 'tools/seedverify.sh: patch applies to /repo HEAD, 89 tests pass with it, demo exits 1 with it and 0 '
                                 'without it (fresh scratch worktree)')
    d['check_result'] = {'command': 'tools/seedscratch.sh %s %s' % (name, name.split('-')[0]), 'exit': rc, 'first_violation': first}
    json.dump(d, open(p, 'w'), indent=1)
print('ok')
