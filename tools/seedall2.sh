#!/bin/sh
# run every seeded change against the check of its own property on scratch copies (/repo untouched); write seeded/RESULTS.txt
cd /verif
: > seeded/RESULTS.txt
for d in seeded/C*/; do
  n=$(basename $d); C=${n%%-*}
  out=$(tools/seedscratch.sh $n $C 2>&1)
  rc=$(echo "$out" | grep -o "exit=[0-9]*" | head -1)
  lem=$(echo "$out" | grep -E "^  L" | head -1 | cut -c1-160)
  echo "$n $rc $lem" | tee -a seeded/RESULTS.txt
done
