#!/usr/bin/env python3
"""CRLF-preserving exact replacement in a repo file:  repl.py FILE <<< JSON [[old,new],...]
old/new are written with \n; they are converted to the file's line terminator. Each old must occur exactly once."""
import json, sys
path = sys.argv[1]
pairs = json.load(sys.stdin)
data = open(path, 'rb').read()
crlf = b'\r\n' in data
for old, new in pairs:
    o, n = old.encode(), new.encode()
    if crlf:
        o, n = o.replace(b'\n', b'\r\n'), n.replace(b'\n', b'\r\n')
    if data.count(o) != 1:
        sys.exit('pattern occurs %d times: %r' % (data.count(o), old[:60]))
    data = data.replace(o, n)
open(path, 'wb').write(data)
print('patched', path)
