#!/usr/bin/env python3
"""Differential tests of the environment models against the real libraries (DESIGN §2.3 item 2).
struct: every format string that occurs in /repo's source (collected from the AST, so a new format fails
loudly if the model cannot parse it) is packed symbolically (variables pinned to random values by the solver)
and compared byte for byte with struct.pack; the packed bytes are unpacked through the model from fully
symbolic bytes pinned to the same values and compared with struct.unpack.  rope slicing/equality and the
BytesIO model are compared with bytes / io.BytesIO on random operation sequences."""
import ast
import glob
import io
import os
import random
import struct
import sys

VERIF = os.path.dirname(os.path.dirname(os.path.abspath(__file__)))
sys.path.insert(0, VERIF)
REPO = os.environ.get('VERIF_REPO', '/repo')

import sx  # noqa: E402
from sx import core, rope  # noqa: E402
from sx.models import struct_m, io_m  # noqa: E402

RANGES = {'B': (0, 255), 'b': (-128, 127), 'H': (0, 65535), 'h': (-32768, 32767), 'L': (0, 2 ** 32 - 1), 'l': (-2 ** 31, 2 ** 31 - 1),
          'I': (0, 2 ** 32 - 1), 'i': (-2 ** 31, 2 ** 31 - 1), 'Q': (0, 2 ** 64 - 1), 'q': (-2 ** 63, 2 ** 63 - 1)}


def formats():
    out = set()
    for path in glob.glob(os.path.join(REPO, 'mpgameserver', '*.py')):
        tree = ast.parse(open(path).read())
        for n in ast.walk(tree):
            if isinstance(n, ast.Call) and isinstance(n.func, ast.Attribute) and n.func.attr in ('pack', 'unpack', 'calcsize') \
                    and isinstance(n.func.value, ast.Name) and n.func.value.id == 'struct' and n.args and isinstance(n.args[0], ast.Constant) \
                    and isinstance(n.args[0].value, str):
                out.add(n.args[0].value)
    return sorted(out)


def concrete_bytes(r):
    if isinstance(r, bytes):
        return r
    return bytes(core.concrete(rope.byte_at(r, i), cap=4) for i in range(len(r)))


def main():
    rnd = random.Random(int(os.environ.get('VERIF_SEED', '0') or 0))
    fails = 0
    n = 0
    for fmt in formats():
        items = struct_m._parse(fmt)
        for trial in range(6):
            core.Engine.cur = core.Engine([])
            vals, syms = [], []
            for k, (c, w) in enumerate(items):
                if c == 's':
                    v = bytes(rnd.randrange(256) for _ in range(w))
                    vals.append(v)
                    syms.append(rope.mk([rope.byte_piece(core.symint('s%d_%d' % (k, j), b, b)) for j, b in enumerate(v)]))
                elif c == '?':
                    v = rnd.random() < 0.5
                    vals.append(v)
                    b = core.symbool('b%d' % k)
                    core.assume(core.Iff(b, v))
                    syms.append(b)
                elif c in 'fd':
                    v = rnd.choice([0.0, 1.5, -2.25, 1e10])
                    vals.append(v)
                    syms.append(v)
                else:
                    lo, hi = RANGES[c]
                    v = rnd.choice([lo, hi, rnd.randint(lo, hi), 0 if lo <= 0 else lo])
                    vals.append(v)
                    syms.append(core.symint('v%d' % k, v, v))
            want = struct.pack(fmt, *vals)
            got = concrete_bytes(struct_m.pack(fmt, *syms))
            n += 1
            if got != want:
                fails += 1
                print('PACK MISMATCH', fmt, vals, got.hex(), want.hex())
            # unpack from fully symbolic bytes pinned to the same values
            data = rope.mk([rope.byte_piece(core.symint('d%d' % j, b, b)) for j, b in enumerate(want)])
            out = struct_m.unpack(fmt, data) if want else ()
            real = struct.unpack(fmt, want)
            for a, b in zip(out, real):
                if isinstance(b, bytes):
                    a = concrete_bytes(a)
                elif isinstance(b, bool):
                    a = bool(a)
                elif isinstance(b, float):
                    continue
                else:
                    a = core.concrete(a, cap=4)
                n += 1
                if a != b:
                    fails += 1
                    print('UNPACK MISMATCH', fmt, want.hex(), a, b)
    # rope slicing / equality vs bytes
    for trial in range(300):
        core.Engine.cur = core.Engine([])
        raw = bytes(rnd.randrange(256) for _ in range(rnd.randint(0, 24)))
        pieces = []
        i = 0
        while i < len(raw):
            w = rnd.choice([1, 1, 2, 4])
            chunk = raw[i:i + w]
            if rnd.random() < 0.5 or len(chunk) not in (1, 2, 4):
                pieces.append(('lit', chunk))
            else:
                v = int.from_bytes(chunk, 'big')
                pieces.append(('fld', rope._zi(core.symint('f%d' % i, v, v)), len(chunk), False))
            i += w
        r = rope.mk(pieces)
        a, b = rnd.randint(-3, 26), rnd.randint(-3, 26)
        a = None if rnd.random() < 0.2 else a
        b = None if rnd.random() < 0.2 else b
        got = concrete_bytes(r[a:b]) if not isinstance(r, bytes) else r[a:b]
        n += 1
        if got != raw[a:b]:
            fails += 1
            print('SLICE MISMATCH', raw.hex(), a, b, got.hex(), raw[a:b].hex())
        if not isinstance(r, bytes):
            n += 1
            if bool(r == raw) is not True or bool(r == raw + b'x') is not False:
                fails += 1
                print('EQ MISMATCH', raw.hex())
    # BytesIO model vs io.BytesIO
    for trial in range(200):
        core.Engine.cur = core.Engine([])
        m, real = io_m.BytesIO(), io.BytesIO()
        for step in range(rnd.randint(1, 6)):
            chunk = bytes(rnd.randrange(256) for _ in range(rnd.randint(0, 6)))
            m.write(chunk)
            real.write(chunk)
        m2, r2 = io_m.BytesIO(m.getvalue()), io.BytesIO(real.getvalue())
        for step in range(rnd.randint(1, 6)):
            k = rnd.choice([-1, 0, 1, 2, 5, 100])
            x, y = m2.read(k), r2.read(k)
            n += 1
            if concrete_bytes(x) != y or core.concrete(m2.tell()) != r2.tell():
                fails += 1
                print('BYTESIO MISMATCH', k, x, y)
    core.Engine.cur = None
    print('model differential: %d comparisons over %d struct formats, %d mismatches' % (n, len(formats()), fails))
    return 1 if fails else 0


if __name__ == '__main__':
    sys.exit(main())
