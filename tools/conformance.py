#!/usr/bin/env python3
"""Concrete-mode conformance of the sx loader (DESIGN §2.3 item 1): the repository's own unit tests that
touch the instrumented modules are run against the *instrumented* modules (AST rewrites, shimmed builtins,
environment models) with all-concrete inputs.  Any failure that does not also occur on the real package is
an engine/model bug.  Usage: .venv/bin/python tools/conformance.py   (exit 0 = all selected tests pass)"""
import importlib.util
import os
import sys
import types
import unittest

VERIF = os.path.dirname(os.path.dirname(os.path.abspath(__file__)))
sys.path.insert(0, VERIF)
REPO = os.environ.get('VERIF_REPO', '/repo')

import sx  # noqa: E402
from sx import loader  # noqa: E402

# tests that need the real crypto / sockets / twisted / wall clock are out of scope for the instrumented run
SELECT = {
    'connection_test': ['ConnectionInitTestCase', 'ConnectionTestCase'],
    'serializable_test': ['SerializableTestCase'],
    'dispatch_test': ['DispatchTestCase'],
}
# individual tests that exercise things the models deliberately do not provide (gzip of ropes, real RNG bytes)
SKIP = {'test_compressed_encode'}


def alias():
    pkg = loader.PKGOBJ
    sys.modules['mpgameserver'] = pkg
    for name in ('connection', 'serializable', 'dispatch', 'context', 'handler', 'crypto', 'timer', 'server', 'client'):
        m = sx.load(name)
        sys.modules['mpgameserver.' + name] = m
        setattr(pkg, name, m)


def main():
    alias()
    suite = unittest.TestSuite()
    ld = unittest.TestLoader()
    for modname, classes in SELECT.items():
        path = os.path.join(REPO, 'tests', modname + '.py')
        spec = importlib.util.spec_from_file_location('sxtests.' + modname, path)
        mod = importlib.util.module_from_spec(spec)
        spec.loader.exec_module(mod)
        for cn in classes:
            cls = getattr(mod, cn)
            for t in ld.getTestCaseNames(cls):
                if t in SKIP:
                    continue
                suite.addTest(cls(t))
    from sx import core
    core.Engine.cur = core.Engine([])       # concrete inputs only: no decision is ever taken
    res = unittest.TextTestRunner(verbosity=1).run(suite)
    core.Engine.cur = None
    print('conformance: ran %d, failures %d, errors %d' % (res.testsRun, len(res.failures), len(res.errors)))
    return 0 if res.wasSuccessful() else 1


if __name__ == '__main__':
    sys.exit(main())
