"""C05 - guaranteed sends are eventually delivered, for every size, from both APIs.

Safety / progress lemmas decided by the solver (DESIGN §6 C05); the final "therefore eventually"
composition is a paper argument stated in EXPLANATION.
"""
import z3

import sx
from sx import core, rope
from sx.core import symint, symbool, symreal, check, assume, choose, SxInt, SxBool, E, And, Or, Not, Iff
from sx.models import env_m
from .common import Registry, real, exclude_known
from . import proto
from .proto import conn, client_mod, Packet, PacketType, SeqNum, RetryMode, Status, Rec, KEY

R = Registry('C05')
EXPLANATION = ('C05 composition (paper step, not machine checked): L5.1 every accepted guaranteed send is queued as messages that '
               'reassemble to the payload and carry a retry obligation; L5.2 every queued message leaves within as many ticks as there '
               'are messages; L5.4 a guaranteed message is always queued, in flight or acknowledged (timeouts re-queue the identical '
               'message, fragments included by C06 L6.4); L5.5 every unacknowledged datagram is resolved once it is older than the '
               'message timeout; L5.6 a genuine non-duplicate datagram delivers all its messages; with a network that eventually '
               'delivers, induction over retransmission rounds gives delivery. L5.8 is the one lemma that does not hold '
               'unconditionally (known finding F6c).')


def setmtu():
    proto.set_mtu()


# ------------------------------------------------------------------ L5.1 API reachability
def l51(api, maxfrag):
    setmtu()
    payload, L = rope.blob('p', 0, None)
    assume(L <= Packet.MAX_PAYLOAD_SIZE + maxfrag * Packet.MAX_FRAGMENT_SIZE)
    cb = Rec('user')
    if api.startswith('client'):
        u = client_mod.UdpClient()
        u.conn = proto.mk_client_side()
        c = u.conn
        target = u
    else:
        c = proto.mk_server_side()
        target = c
    try:
        if api == 'client_send':
            target.send(payload, retry=RetryMode.RETRY_ON_TIMEOUT, callback=cb)     # UdpClient.send with the guaranteed mode
        elif api == 'client_send_default':
            target.send(payload, callback=cb)                                       # the client's default retry mode is the guaranteed one
        else:
            target.send_guaranteed(payload, cb)
    except Exception as ex:
        core.fail('send_guaranteed raised', error=type(ex).__name__ + ': ' + str(ex)[:60], api=api)
    q = c.outgoing_messages
    check(len(q) >= 1, 'a guaranteed send queues at least one message')
    if len(q) == 1 and q[0].type == PacketType.APP:
        m = q[0]
        check(m.payload == payload, 'queued payload == sent payload')
        check(m.retry == RetryMode.RETRY_ON_TIMEOUT and isinstance(m.callback, conn.RetrySender), 'single message carries the retry obligation')
        check(m.callback.callback is cb, 'user callback attached')
    else:
        bodies = []
        for m in q:
            check(m.type == PacketType.APP_FRAGMENT, 'fragmented send queues fragment messages')
            fid, idx, cnt, body = conn.FragmentSender.parsePayload(m.payload)
            bodies.append(body)
            check(m.callback is not None, 'fragment carries its sender callback')
        check(rope.join(b'', bodies) == payload, 'fragments reassemble to the sent payload')
        fs = c.pending_fragments[c.seq_fragment]
        check(fs.retry == RetryMode.RETRY_ON_TIMEOUT, 'fragment sender carries the retry obligation')
        check(fs.user_callback is cb, 'user callback attached to the fragment sender')


def replay_l51(cfg, m):
    import os
    c = real('mpgameserver.connection')
    cm = real('mpgameserver.client')
    proto.replay_set_mtu(c, m)
    try:
        if cfg['api'].startswith('client'):
            u = cm.UdpClient()
            u.conn = c.ClientServerConnection(('srv', 9))
            u.conn.status = c.ConnectionStatus.CONNECTED
            target, cn = u, u.conn
        else:
            ctxt = real('mpgameserver.context').ServerContext(real('mpgameserver.handler').EventHandler())
            cn = c.ServerClientConnection(ctxt, ('cli', 7))
            cn.status = c.ConnectionStatus.CONNECTED
            target = cn
        data = os.urandom(m.get('p_len', 0))
        try:
            if cfg['api'] == 'client_send':
                target.send(data, retry=c.RetryMode.RETRY_ON_TIMEOUT, callback=lambda ok: None)
            elif cfg['api'] == 'client_send_default':
                target.send(data, callback=lambda ok: None)
            else:
                target.send_guaranteed(data, lambda ok: None)
        except Exception as ex:
            return True, '%s raised %s: %s' % (cfg['api'], type(ex).__name__, ex)
        q = cn.outgoing_messages
        bad = len(q) < 1 or any(getattr(m_, 'retry', None) != c.RetryMode.RETRY_ON_TIMEOUT and m_.type == c.PacketType.APP for m_ in q) \
            or any(m_.type == c.PacketType.APP_FRAGMENT and cn.pending_fragments[cn.seq_fragment].retry != c.RetryMode.RETRY_ON_TIMEOUT for m_ in q)
        return bad, 'queued %d message(s), retry obligations: %s' % (len(q), [getattr(m_, 'retry', None) for m_ in q][:3])
    finally:
        c.Packet.setMTU(1500)


R.add('L5.1', l51, lambda tier: [dict(api=a, maxfrag=(2 if tier == 'quick' else 5)) for a in ('client', 'client_send', 'client_send_default', 'server')], replay=replay_l51,
      desc='send_guaranteed on the client and on a server-side client object, UdpClient.send with RETRY_ON_TIMEOUT and with its default mode: accepted for every length, queued with a retry obligation',
      expect=['queued payload == sent payload', 'fragments reassemble to the sent payload', 'single message carries the retry obligation'],
      bounds='L <= MAX_PAYLOAD_SIZE + 2 (thorough 5) * MAX_FRAGMENT_SIZE, MTU 512..1500')


# ------------------------------------------------------------------ L5.2 every queued message leaves
def l52(maxfrag):
    setmtu()
    c = proto.mk_base()
    payload, L = rope.blob('p', 0, None)
    assume(L <= Packet.MAX_PAYLOAD_SIZE + maxfrag * Packet.MAX_FRAGMENT_SIZE)
    mode = proto.MODES[choose(3, 'retry')]
    c.send(payload, mode, None)
    n = len(c.outgoing_messages)
    t = 100.0
    for i in range(n):
        before = len(c.outgoing_messages)
        pkt = c._build_packet_impl(t, False, 1000.0)
        t += 1.0
        check(pkt is not None and len(c.outgoing_messages) < before, 'every tick takes at least the head of the queue')
        raw = pkt.to_bytes(KEY)
        check(rope.sx_len(raw) <= Packet.MTU - 28, 'datagram <= MTU-28')
        if not c.outgoing_messages:
            break
    check(len(c.outgoing_messages) == 0, 'no payload size is left unsent: the queue drains')


def replay_l52(cfg, m):
    import os
    c = real('mpgameserver.connection')
    proto.replay_set_mtu(c, m)
    try:
        cn = c.ConnectionBase(False, ('p', 1))
        cn.status = c.ConnectionStatus.CONNECTED
        mode = [c.RetryMode.NONE, c.RetryMode.BEST_EFFORT, c.RetryMode.RETRY_ON_TIMEOUT][[v for k, v in m.items() if k.startswith('retry')][0]]
        cn.send(os.urandom(m.get('p_len', 0)), mode, None)
        n = len(cn.outgoing_messages)
        for i in range(n + 2):
            cn._build_packet_impl(100.0 + i, False, 1000.0)
        return len(cn.outgoing_messages) != 0, 'L=%d mtu=%d: %d of %d messages never leave' % (m.get('p_len', 0), c.Packet.MTU, len(cn.outgoing_messages), n)
    finally:
        c.Packet.setMTU(1500)


R.add('L5.2', l52, lambda tier: [dict(maxfrag=(3 if tier == 'quick' else 8))], replay=replay_l52,
      desc='send() then one packet per tick: the queue drains for every payload length and MTU',
      expect=['no payload size is left unsent: the queue drains'],
      bounds='L <= MAX_PAYLOAD_SIZE + 3 (thorough 8) * MAX_FRAGMENT_SIZE, MTU 512..1500')


# ------------------------------------------------------------------ L5.4 conservation of a guaranteed message
def l54():
    clock = proto.clock_at(100.0)
    c = proto.mk_base(clock=clock)
    payload, L = rope.blob('p', 0, None)
    assume(L <= Packet.MAX_PAYLOAD_SIZE)
    c.seq_message = SeqNum(symint('msgseq0', 0, 65535))
    c.seq_sending = SeqNum(symint('pktseq0', 0, 65535))
    cb = Rec('user')
    c.send(payload, RetryMode.RETRY_ON_TIMEOUT, cb)
    m0 = c.outgoing_messages[0]
    pkt = c._build_packet_impl(100.0, False, 0.1)
    check(pkt is not None and len(pkt.msgs) == 1 and pkt.msgs[0] is m0, 'message leaves in the next datagram')
    s = c.seq_sending
    check(s in c.pending_acks, 'datagram registered for ack/timeout')
    check(any(isinstance(x, conn.RetrySender) for x in c.pending_callbacks[s]), 'in flight: its RetrySender waits on the datagram')
    outcome = choose(2, 'outcome')
    if outcome == 0:
        c._handle_timeout(s)
        check(s not in c.pending_acks, 'timed-out datagram resolved')
        requeued = [m for m in c.outgoing_messages]
        check(len(requeued) == 1, 'a timed-out guaranteed message is queued again')
        r = requeued[0]
        check(And(r.seq == m0.seq, r.type == m0.type, r.payload == m0.payload), 'the re-queued message is the identical (seq, type, payload)')
        check(r.retry == RetryMode.RETRY_ON_TIMEOUT and isinstance(r.callback, conn.RetrySender), 're-queued message keeps the retry obligation')
        check(cb.calls == [], 'no user callback on a timeout of a guaranteed send')
    else:
        c._handle_ack(s)
        check(s not in c.pending_acks, 'acked datagram resolved')
        check(len(c.outgoing_messages) == 0, 'an acknowledged message is not queued again')
        check(m0.seq not in c.pending_retry_msg, 'an acknowledged message leaves the resend table')
        check(cb.calls == [True], 'user callback reports success once')


R.add('L5.4', l54, [{}], desc='guaranteed message: queued -> in flight -> (timeout: identical message re-queued | ack: done)',
      expect=['the re-queued message is the identical (seq, type, payload)', 'user callback reports success once'])


# ------------------------------------------------------------------ L5.5 resolution of old datagrams
def l55(kind, p):
    now = symreal('now', lo=10)
    clock = proto.clock_at(now)
    if kind == 'client':
        c = proto.mk_client_side(clock=clock)
    else:
        c = proto.mk_server_side(clock=clock)
    c.outgoing_timeout = symreal('timeout', lo=0.001)
    c.last_send_time = now - 1        # allow the server variant to run
    c.last_send_keep_alive_time = now
    seqs, times, recs = [], [], []
    for i in range(p):
        s = SeqNum(100 + 7 * i)
        t = symreal('sent%d' % i, lo=0, hi=now)
        r = Rec('cb%d' % i)
        c.pending_acks[s] = t
        c.pending_callbacks[s] = [r]
        seqs.append(s)
        times.append(t)
        recs.append(r)
    if kind == 'client':
        c._check_timeout(now)          # what UdpClient.update() calls every tick
    else:
        c.status = Status.DISCONNECTED  # no keep-alive wanted here; update() still sweeps timeouts
        c.update()
    for s, t, r in zip(seqs, times, recs):
        old = (now - t) > c.outgoing_timeout
        gone = s not in c.pending_acks
        check(Or(Not(old), gone), 'a datagram older than the message timeout is resolved by the next tick')
        check(Or(Not(gone), (now - t) >= c.outgoing_timeout), 'no datagram is timed out early')
        check(Iff(gone, r.calls == [False]) if isinstance(gone, bool) else True, 'callback(False) exactly for the resolved ones')
        check(len(r.calls) <= 1, 'at most one callback')


R.add('L5.5', l55, lambda tier: [dict(kind=k, p=(2 if tier == 'quick' else 3)) for k in ('client', 'server')],
      desc='_check_timeout / ServerClientConnection.update resolve every datagram older than the message timeout',
      expect=['a datagram older than the message timeout is resolved by the next tick', 'no datagram is timed out early'])


# ------------------------------------------------------------------ L5.6 receiver delivers what a genuine datagram carries
def l56(q):
    clock = proto.clock_at(100.0)
    tx = proto.mk_base(server=False, clock=clock)
    rx = proto.mk_base(server=True, clock=clock)
    payloads = []
    for i in range(q):
        p, L = rope.blob('p%d' % i, 0, None)
        assume(L <= Packet.MAX_PAYLOAD_SIZE)
        tx.send(p, proto.MODES[choose(3, 'retry%d' % i)], None)
        payloads.append(p)
    delivered = []
    for tick in range(q):
        if not tx.outgoing_messages:
            break
        pkt = tx._build_packet_impl(100.0 + tick, False, 1000.0)
        raw = tx._encode_packet(pkt)
        hdr = conn.PacketHeader.from_bytes(True, raw)
        ok = rx._recv_datagram(hdr, raw)
        check(ok is True, 'a genuine fresh datagram is accepted')
    got = [d for s, d in rx.incoming_messages]
    check(len(got) == q, 'every application message carried by accepted datagrams is delivered')
    # the packer may let a small later message overtake one that does not fit the current datagram: the
    # statement promises delivery, not order - every payload arrives exactly once, byte-identical
    for b in payloads:
        n = sum(1 for a in got if a is b or (rope.isrope(a) and rope.isrope(b) and rope.full_view_blob(a) is rope.full_view_blob(b)) or
                (isinstance(a, bytes) and isinstance(b, bytes) and a == b))
        check(n == 1, 'each payload is delivered exactly once, byte-identical')


R.add('L5.6', l56, lambda tier: [dict(q=q) for q in ((1, 2) if tier == 'quick' else (1, 2, 3))],
      desc='sender -> real codec -> receiver: every APP message of an accepted datagram is delivered',
      expect=['every application message carried by accepted datagrams is delivered'])


def l56b():
    """a message that was *not* received before is delivered whatever its distance from the newest message
    (late retransmissions after a lot of other traffic included): arbitrary message window, fresh datagram"""
    import z3
    clock = proto.clock_at(100.0)
    tx = proto.mk_base(server=False, clock=clock)
    rx = proto.mk_base(server=True, clock=clock)
    cur = symint('msg_cur', 1, 65535)
    bits = core.symbv('msg_bits', 256)
    rx.bitfield_msg.current_seqnum = SeqNum(cur)
    rx.bitfield_msg.bits = bits
    e_ = symint('e', -32767, 32767)
    y = SeqNum(cur) + (-e_)
    if bool(e_ < 0):
        seen = False
    elif bool(e_ == 0):
        seen = True
    elif bool(e_ <= 256):
        seen = SxBool(z3.Extract(256 - core.concrete(e_, cap=300), 256 - core.concrete(e_, cap=300), bits.z) == 1) if isinstance(bits, SxInt) and bits.z is not None else bool((int(bits) >> (256 - int(e_))) & 1)
    else:
        seen = False           # ghost: older than the window and never received (e.g. all earlier copies were lost)
    assume(Not(seen))
    payload, L = rope.blob('p', 0, 100)
    tx.seq_sending = SeqNum(symint('pkt_seq', 1, 65534))
    tx.seq_message = y - 1
    tx.send(payload, RetryMode.RETRY_ON_TIMEOUT, None)
    pkt = tx._build_packet_impl(100.0, False, 0.1)
    raw = tx._encode_packet(pkt)
    ok = rx._recv_datagram(conn.PacketHeader.from_bytes(True, raw), raw)
    check(ok is True, 'the fresh datagram is accepted')
    got = [d for s_, d in rx.incoming_messages]
    check(len(got) == 1 and got[0] == payload, 'a message that was not received before is delivered, however late it arrives')


R.add('L5.6b', l56b, [{}], desc='not-yet-received message at any ring offset (late retransmission) from an arbitrary message window: delivered',
      expect=['a message that was not received before is delivered, however late it arrives'])


# ------------------------------------------------------------------ L5.7 bounded loss scenario
def l57(ticks, fragmented=False):
    """one guaranteed single-datagram message; each transmission and each ack-carrying reply is lost
    or delivered by symbolic choice for the first rounds, then the network is healed"""
    clock = proto.clock_at(100.0)
    tx = proto.mk_client_side(clock=clock)
    rx = proto.mk_server_side(clock=clock)
    payload, L = rope.blob('p', 0, None)
    if fragmented:
        assume(And(L > Packet.MAX_PAYLOAD_SIZE, L <= Packet.MAX_PAYLOAD_SIZE + Packet.MAX_FRAGMENT_SIZE))
    else:
        assume(L <= Packet.MAX_PAYLOAD_SIZE)
    cb = Rec('user')
    tx.send(payload, RetryMode.RETRY_ON_TIMEOUT, cb)
    lossy = 2
    for tick in range(ticks):
        clock.advance(0.6)
        healed = tick >= lossy
        # sender tick (what UdpClient.update does)
        t0 = tx.clock()
        pkt = tx._build_packet()
        if pkt is not None:
            raw = tx._encode_packet(pkt)
            if healed or not bool(symbool('lose_data%d' % tick)):
                hdr = conn.PacketHeader.from_bytes(True, raw)
                rx._recv_datagram(hdr, raw)
        tx._check_timeout(t0)
        # receiver tick: reply (keep-alive carrying acks)
        rep = rx.update()
        if rep is not None:
            rpkt, rkey, raddr = rep
            rraw = rpkt.to_bytes(rkey)
            if healed or not bool(symbool('lose_ack%d' % tick)):
                rhdr = conn.PacketHeader.from_bytes(False, rraw)
                tx._recv_datagram(rhdr, rraw)
    got = [d for s, d in rx.incoming_messages]
    check(len(got) == 1, 'delivered exactly once after the network heals')
    if got:
        check(got[0] == payload, 'delivered byte-identical')
    check(cb.calls == [True], 'success reported to the sender exactly once')


R.add('L5.7', l57, lambda tier: [dict(ticks=(5 if tier == 'quick' else 7)), dict(ticks=(7 if tier == 'quick' else 9), fragmented=True)],
      desc='bounded scenario: losses in both directions for the first rounds, then a healed network',
      expect=['delivered exactly once after the network heals'], bounds='5 (thorough 7) ticks of 0.6 s, losses in the first 2 rounds')


# ------------------------------------------------------------------ L5.8 incomplete fragment contexts are kept while retransmission is possible
def l58(n):
    now = symreal('now', lo=100)
    clock = proto.clock_at(now)
    rx = proto.mk_base(server=True, clock=clock)
    fid = SeqNum(symint('fid', 1, 65535))
    other = SeqNum(symint('other_fid', 1, 65535))
    assume(other != fid)
    age = symreal('age', lo=0, hi=50)
    ctx = conn.FragmentReceiver(rx, n, now - age)
    ctx.fragments[0] = rope.blob('slot0', 1, 2000)[0]      # one fragment arrived, the rest still in flight
    rx.received_fragments[fid] = ctx
    exclude_known('L5.8', 'C05', dict(age=age, max_age=1.0 + 0.5 * n))
    # a fragment of an unrelated message arrives
    body = rope.blob('body', 1, 2000)[0]
    rx._recvAppFragment(SeqNum(9), conn.struct.pack('>HHH', other, 1, 3) + body)
    check(fid in rx.received_fragments and rx.received_fragments[fid] is ctx,
          'an incomplete context is not discarded while its message can still be retransmitted')


def replay_l58(cfg, m):
    import unittest.mock as um
    c = real('mpgameserver.connection')
    n = cfg['n']
    age = m.get('age', {}).get('float', 10.0) if isinstance(m.get('age'), dict) else float(m.get('age', 10.0))
    now = [1000.0]
    with um.patch.object(c.time, 'time', lambda: now[0]):
        rx = c.ConnectionBase(True, ('p', 1))
        rx.clock = lambda: now[0]
        # guaranteed message A (n fragments): fragment 1 arrives, another one is lost and will be retransmitted
        rx._recvAppFragment(c.SeqNum(1), c.struct.pack('>HHH', 5, 1, n) + b'A' * 10)
        now[0] += age
        rx._recvAppFragment(c.SeqNum(9), c.struct.pack('>HHH', 6, 1, 3) + b'B' * 10)     # unrelated traffic
        gone = 5 not in rx.received_fragments
        # the retransmitted fragments of A arrive now
        for i in range(2, n + 1):
            rx._recvAppFragment(c.SeqNum(10 + i), c.struct.pack('>HHH', 5, i, n) + b'A' * 10)
        delivered = len(rx.incoming_messages)
    return gone and delivered == 0, 'context age %.2f s (limit %.1f): discarded=%s, message delivered=%d' % (age, 1 + 0.5 * n, gone, delivered)


R.add('L5.8', l58, lambda tier: [dict(n=n) for n in ((2, 4) if tier == 'quick' else (2, 3, 4, 8))], replay=replay_l58,
      desc='_recvAppFragment keeps incomplete contexts of other messages (needed for retransmitted fragments to complete them)',
      expect=['an incomplete context is not discarded while its message can still be retransmitted'])

import sys as _sys  # noqa: E402
from .common import generic_replay  # noqa: E402
for _l in R.lemmas.values():
    if _l.replay is None:
        _l.replay = generic_replay(_l.func, [proto, _sys.modules[__name__]])

for _lid in ['L5.1', 'L5.2', 'L5.7']:
    if _lid in R.lemmas:
        R.lemmas[_lid].api = True

get_harness = R.get_harness
