"""C17 - path_join_safe never returns a path outside the root.

The real path_join_safe runs on text ropes; os.path.join/abspath/normpath are CPython's own
pure-Python posixpath bodies executed by sx.  filename = k+1 segments joined by k separators;
each separator is symbolically '/' or '\\'; each segment is empty or an arbitrary non-empty
string without separators ('..', '.', 'C:', unicode ... are all instances).
"""
import os as _os
import posixpath as _pp

import z3

import sx
from sx import core, text
from sx.core import check, assume, choose, symbool, SxBool, E, And, Or, Not
from sx.models import path_m
from .common import Registry, real

ws = sx.load('http_server')
R = Registry('C17')


def sym_path(name, k, allow_empty=True):
    """k separators, k+1 segments; segment i is empty (by symbolic choice) or an atom"""
    out = ''
    for i in range(k + 1):
        if i:
            out = out + text.sepchar('%s_sep%d' % (name, i))
        if allow_empty and bool(symbool('%s_empty%d' % (name, i))):
            continue
        out = out + text.atom('%s_seg%d' % (name, i))
    return out


def clean_atoms(name, n):
    """n normalised path components (non-empty, no separators, neither '.' nor '..')"""
    out = []
    for i in range(n):
        a = text.atom('%s%d' % (name, i))
        assume(And(a != '.', a != '..'))
        out.append(a)
    return out


def under(p, Rt):
    """p == R or p lies beneath R (string level); R ending in a separator is '/' (or POSIX '//')"""
    if bool(text.ends(Rt, '/')):
        # the root resolves to '/' (or POSIX '//', which names the same directory): everything absolute is beneath it
        return text.starts(p, '/')
    return Or(p == Rt, text.starts(p, Rt + '/'))


def l171(k, rootkind, rootsep=2, cwdmax=2):
    # cwd: arbitrary absolute normalised directory
    nc = choose(cwdmax + 1, 'cwd_depth')
    cwd = '/' + text.join('/', clean_atoms('cwd', nc)) if nc else '/'
    path_m.set_cwd(cwd)
    # root: trusted but arbitrary
    if rootkind == 'abs':
        root = '/' + sym_path('root', rootsep)
    elif rootkind == 'rel':
        root = sym_path('root', rootsep)
    else:
        root = '/'
    trailing = bool(symbool('root_trailing_sep'))
    if trailing and rootkind != 'slash':
        root = root + '/'
    filename = sym_path('name', k)
    Rt = ws.os.path.abspath(root.replace('\\', '/') if not isinstance(root, str) else root.replace('\\', '/'))
    try:
        p = ws.path_join_safe(root, filename)
    except ValueError:
        check(True, 'refused with ValueError')
        return
    check(under(p, Rt), 'returned path is the root or lies beneath it')
    # normalised: no empty, '.' or '..' component, absolute
    check(text.starts(p, '/'), 'returned path is absolute')
    check(ws.os.path.normpath(p) == p, 'returned path is normalised')


def build_concrete(m, name, k, allow_empty=True):
    out = ''
    for i in range(k + 1):
        if i:
            out += m.get('%s_sep%d' % (name, i), '/')
        if allow_empty and m.get('%s_empty%d' % (name, i)):
            continue
        out += m.get('%s_seg%d' % (name, i), 'x')
    return out


def replay_l171(cfg, m):
    import unittest.mock as um
    c = real('mpgameserver.http_server')
    k, rootkind = cfg['k'], cfg['rootkind']
    nc = [v for kk, v in m.items() if kk.startswith('cwd_depth')][0]
    cwd = '/' + '/'.join(m.get('cwd%d' % i, 'c') for i in range(nc)) if nc else '/'
    if rootkind == 'abs':
        root = '/' + build_concrete(m, 'root', cfg.get('rootsep', 2))
    elif rootkind == 'rel':
        root = build_concrete(m, 'root', cfg.get('rootsep', 2))
    else:
        root = '/'
    if m.get('root_trailing_sep') and rootkind != 'slash':
        root += '/'
    filename = build_concrete(m, 'name', k)
    with um.patch.object(_os, 'getcwd', lambda: cwd):
        Rt = _pp.abspath(root.replace('\\', '/'))
        try:
            p = c.path_join_safe(root, filename)
        except ValueError:
            return False, 'ValueError'
    ok = (p == Rt) or p.startswith(Rt.rstrip('/') + '/')
    ok = ok and p == _pp.normpath(p) and p.startswith('/')
    return (not ok), 'path_join_safe(%r, %r) = %r, root resolves to %r' % (root, filename, p, Rt)


def l171_instances(tier):
    if tier == 'quick':
        return [dict(k=k, rootkind=r, rootsep=1, cwdmax=1) for k in (0, 1, 2, 3, 4) for r in ('abs', 'rel', 'slash')]
    return ([dict(k=k, rootkind=r, rootsep=1, cwdmax=1) for k in (0, 1, 2, 3, 4, 5, 6) for r in ('abs', 'rel', 'slash')]
            + [dict(k=k, rootkind=r, rootsep=2, cwdmax=2) for k in (0, 1, 2, 3) for r in ('abs', 'rel')])


R.add('L17.1', l171, l171_instances, replay=replay_l171,
      desc='path_join_safe(root, name): ValueError or root / beneath root, normalised; every name with <= k separators',
      expect=['returned path is the root or lies beneath it', 'refused with ValueError',
              'returned path is normalised'],
      bounds='name: <= 4 (thorough 6) separators of either kind, segments empty or arbitrary separator-free strings; '
             'root: <= 1 (thorough 2) separators, absolute / relative / "/", with or without trailing separator; cwd depth <= 1 (2)')

for _lid in ['L17.1']:
    if _lid in R.lemmas:
        R.lemmas[_lid].api = True

get_harness = R.get_harness
