"""C04 - at-most-once delivery: duplicates, replays and retransmissions are dropped.

L4.1 a genuine datagram that was already received (anywhere in the half ring) is dropped whole,
L4.2 a message whose seq was already received is not delivered again, L4.4 bounded two-endpoint
scenario with duplication / reordering / replay of recorded datagrams.
The receive windows are arbitrary (symbolic); "was received before" is the window bit inside the
window and a ghost Boolean beyond it.
"""
import z3

import sx
from sx import core, rope
from sx.core import symint, symbool, symreal, symbv, check, assume, choose, SxInt, SxBool, E, And, Or, Not, Iff
from .common import Registry, real, generic_replay, exclude_known
from . import proto
from .proto import conn, Packet, PacketType, SeqNum, RetryMode, Status, Rec, KEY

R = Registry('C04')


def bitn(bits, i, n):
    if isinstance(bits, SxInt) and bits.z is not None:
        return SxBool(z3.Extract(i, i, bits.z) == 1)
    return bool((int(bits) >> i) & 1)


def genuine_datagram(tx, seq_pkt, seq_msg, payload, now):
    """a datagram really produced by the peer: pkt seq and msg seq forced, sealed by the AEAD"""
    tx.seq_sending = seq_pkt - 1
    tx.seq_message = seq_msg - 1
    tx.send(payload, RetryMode.NONE, None)
    pkt = tx._build_packet_impl(now, False, 0.1)
    raw = tx._encode_packet(pkt)
    hdr = conn.PacketHeader.from_bytes(not tx.isServer, raw)
    return hdr, raw


# ------------------------------------------------------------------ L4.1
def l41(rx_is_server=True):
    now = symreal('now', lo=10, hi=4000000000)
    clock = proto.clock_at(now)
    rx = proto.mk_base(server=rx_is_server, clock=clock)
    tx = proto.mk_base(server=not rx_is_server, clock=clock)
    cur = symint('cur', 1, 65535)
    bits = symbv('bits', 32)
    rx.bitfield_pkt.current_seqnum = SeqNum(cur)
    rx.bitfield_pkt.bits = bits
    rx.bitfield_msg.current_seqnum = SeqNum(symint('msg_cur', 1, 65535))
    rx.last_recv_time = symreal('last_recv', lo=0, hi=now)
    # something of ours is waiting for an ack: a replayed header must not resolve it
    mine = SeqNum(symint('pending_seq', 1, 65535))
    rec = Rec('pending')
    rx.pending_acks[mine] = now
    rx.pending_callbacks[mine] = [rec]
    d = symint('d', 0, 32767)                      # how far behind the newest seq the duplicate is
    x = SeqNum(cur) + (-d)
    beyond = symbool('received_before_beyond_window')
    payload, L = rope.blob('p', 0, 100)
    mseq = SeqNum(symint('mseq', 1, 65535))
    hdr, raw = genuine_datagram(tx, x, mseq, payload, now)
    # the receiver has seen exactly this datagram before
    if bool(d == 0):
        seen = True
    elif bool(d <= 32):
        seen = bitn(bits, 32 - core.concrete(d, cap=40), 32)
    else:
        seen = beyond
    assume(seen)
    before = proto.snapshot(rx)
    dropped0, received0 = rx.stats.dropped, rx.stats.received
    ok = rx._recv_datagram(hdr, raw)
    check(ok is False, 'a duplicate datagram is rejected')
    check(rx.stats.dropped == dropped0 + 1, 'a duplicate datagram is counted as dropped')
    check(rx.stats.received == received0, 'a duplicate datagram is not counted as received')
    same, names = proto.unchanged(before, proto.snapshot(rx))
    check(same, 'a duplicate datagram has no other effect')
    check(rec.calls == [] and len(rx.incoming_messages) == 0, 'nothing acknowledged or delivered by a duplicate')


def replay_l41(cfg, m):
    """API-level replay: deliver datagram x, then d newer datagrams, then x again"""
    c = real('mpgameserver.connection')
    d = m.get('d', 0)
    now = [100.0]
    tx = c.ConnectionBase(False, ('p', 1))
    rx = c.ConnectionBase(True, ('p', 1))
    for z in (tx, rx):
        z.status = c.ConnectionStatus.CONNECTED
        z.session_key_bytes = KEY
        z.clock = lambda: now[0]
    recorded = None
    for i in range(d + 1):
        tx.send(b'm%d' % i)
        pkt = tx._build_packet_impl(now[0], False, 0.1)
        raw = tx._encode_packet(pkt)
        if i == 0:
            recorded = raw
        rx._recv_datagram(c.PacketHeader.from_bytes(True, raw), raw)
        now[0] += 0.02
    rx.incoming_messages = []
    dropped0 = rx.stats.dropped
    t_before = rx.last_recv_time
    now[0] += 1.0
    ok = rx._recv_datagram(c.PacketHeader.from_bytes(True, recorded), recorded)
    bad = ok is not False or rx.stats.dropped != dropped0 + 1 or rx.last_recv_time != t_before or rx.incoming_messages
    return bool(bad), 'replay of a datagram %d datagrams old: accepted=%s liveness clock moved=%s delivered=%d' % (
        d, ok, rx.last_recv_time != t_before, len(rx.incoming_messages))


R.add('L4.1', l41, [dict(rx_is_server=True), dict(rx_is_server=False)], replay=replay_l41,
      desc='genuine datagram already received (0..32767 datagrams ago) from an arbitrary window state: dropped whole',
      expect=['a duplicate datagram is rejected', 'a duplicate datagram has no other effect'],
      bounds='offset 0..32767 behind the newest datagram; arbitrary 32-bit window, clocks, pending table with one entry')


# ------------------------------------------------------------------ L4.2
def l42():
    now = symreal('now', lo=10, hi=4000000000)
    clock = proto.clock_at(now)
    rx = proto.mk_base(server=True, clock=clock)
    tx = proto.mk_base(server=False, clock=clock)
    cur = symint('msg_cur', 1, 65535)
    bits = symbv('msg_bits', 256)
    rx.bitfield_msg.current_seqnum = SeqNum(cur)
    rx.bitfield_msg.bits = bits
    e_ = symint('e', 0, 32767)
    y = SeqNum(cur) + (-e_)
    beyond = symbool('received_before_beyond_window')
    exclude_known('L4.2', 'C04', dict(e=e_, beyond=beyond))
    payload, L = rope.blob('p', 0, 100)
    frag = bool(symbool('as_fragment'))
    # a *fresh* datagram (the receiver's datagram window is in its initial state) carrying that message again
    tx.seq_sending = SeqNum(symint('pkt_seq', 1, 65534))
    tx.seq_message = y - 1
    if frag:
        tx._send_type(PacketType.APP_FRAGMENT, conn.struct.pack('>HHH', 3, 1, 1) + payload, RetryMode.NONE, None)
    else:
        tx.send(payload, RetryMode.NONE, None)
    pkt = tx._build_packet_impl(now, False, 0.1)
    raw = tx._encode_packet(pkt)
    hdr = conn.PacketHeader.from_bytes(True, raw)
    if bool(e_ == 0):
        seen = True
    elif bool(e_ <= 256):
        seen = bitn(bits, 256 - core.concrete(e_, cap=300), 256)
    else:
        seen = beyond
    assume(seen)
    ok = rx._recv_datagram(hdr, raw)
    check(ok is True, 'the fresh datagram itself is accepted')
    check(len(rx.incoming_messages) == 0, 'a message that was already received is not delivered again')
    check(len(rx.received_fragments) == 0, 'a fragment that was already received is not stored again')


def replay_l42(cfg, m):
    """API-level replay: message y is delivered, e newer messages follow, then a retransmission of y
    (same message seq, new datagram) arrives"""
    c = real('mpgameserver.connection')
    e_ = m.get('e', 0)
    now = [100.0]
    tx = c.ConnectionBase(False, ('p', 1))
    rx = c.ConnectionBase(True, ('p', 1))
    for z in (tx, rx):
        z.status = c.ConnectionStatus.CONNECTED
        z.session_key_bytes = KEY
        z.clock = lambda: now[0]

    def ship():
        pkt = tx._build_packet_impl(now[0], False, 1000.0)
        raw = tx._encode_packet(pkt)
        rx._recv_datagram(c.PacketHeader.from_bytes(True, raw), raw)
        now[0] += 0.02
    tx.send(b'the message')
    first = tx.outgoing_messages[0]
    ship()
    for i in range(e_):
        tx.send(b'n%d' % i)
        if len(tx.outgoing_messages) >= 100 or i == e_ - 1:
            while tx.outgoing_messages:
                ship()
    n0 = len([1 for s, d in rx.incoming_messages if d == b'the message'])
    # retransmission (e.g. its ack was lost and the retry fired late)
    tx.outgoing_messages.append(c.PendingMessage(first.seq, first.type, first.payload, None, c.RetryMode.NONE))
    ship()
    n1 = len([1 for s, d in rx.incoming_messages if d == b'the message'])
    return n1 > 1, 'message delivered %d times; retransmission arrived %d messages later' % (n1, e_)


R.add('L4.2', l42, [{}], replay=replay_l42,
      desc='fresh datagram carrying a message seq already received (0..32767 messages ago): not delivered again',
      expect=['a message that was already received is not delivered again'],
      bounds='offset 0..32767 behind the newest message; arbitrary 256-bit message window; APP and APP_FRAGMENT')


# ------------------------------------------------------------------ L4.3 retransmissions keep their message seq
def l43(fragmented):
    """the receiver recognises a retransmission by its message sequence number: whatever re-queues a
    message after a timeout (RetrySender, FragmentSender.callback) must re-queue it under the seq it was
    first sent with, or an already delivered message is delivered again when only its ack was lost"""
    clock = proto.clock_at(100.0)
    tx = proto.mk_base(clock=clock)
    tx.seq_message = SeqNum(symint('msg_seq0', 0, 65535))
    payload, L = rope.blob('p', 0, None)
    if fragmented:
        assume(And(L > Packet.MAX_PAYLOAD_SIZE, L <= Packet.MAX_PAYLOAD_SIZE + 2 * Packet.MAX_FRAGMENT_SIZE))
    else:
        assume(L <= Packet.MAX_PAYLOAD_SIZE)
    mode = [RetryMode.RETRY_ON_TIMEOUT, RetryMode.BEST_EFFORT][choose(2, 'retry')]
    tx.send(payload, mode, None)
    msgs = list(tx.outgoing_messages)
    k = choose(len(msgs), 'which')
    orig = msgs[k]
    if orig.callback is None:
        return      # BEST_EFFORT without a callback: resent only from the resend table, same object
    tx.outgoing_messages = []
    # other traffic in between moves the connection's message counter on
    tx.send(b'later', RetryMode.NONE, None)
    tx.outgoing_messages = []
    orig.callback(False)            # the datagram that carried it timed out
    again = [m for m in tx.outgoing_messages]
    if mode == RetryMode.RETRY_ON_TIMEOUT or fragmented:
        check(len(again) == 1, 'a timed-out retried message is queued again')
    for m in again:
        check(m.seq == orig.seq, 'a retransmission carries the message sequence number of the original')
        check(And(m.type == orig.type, m.payload == orig.payload), 'a retransmission is the identical message')


R.add('L4.3', l43, [dict(fragmented=False), dict(fragmented=True)],
      desc='timeout re-queue paths (RetrySender, FragmentSender.callback): same message seq, type and payload',
      expect=['a retransmission carries the message sequence number of the original'])


# ------------------------------------------------------------------ L4.4 scenario
def l44(nmsg, steps):
    clock = proto.clock_at(100.0)
    tx = proto.mk_base(server=False, clock=clock)
    rx = proto.mk_base(server=True, clock=clock)
    tx.seq_sending = SeqNum([0, 65534][choose(2, 'pkt_seq0')])       # from the start, and across the wrap
    tx.seq_message = SeqNum([0, 65534][choose(2, 'msg_seq0')])
    recorded = []
    payloads = []
    for i in range(nmsg):
        p, L = rope.blob('p%d' % i, 1, 50)
        mode = proto.MODES[choose(3, 'retry%d' % i)]
        tx.send(p, mode, None)
        payloads.append(p)
        pkt = tx._build_packet_impl(100.0 + i, False, 0.0)     # resend delay 0: retried messages ride along again
        raw = tx._encode_packet(pkt)
        recorded.append(raw)
    for s in range(steps):
        k = choose(len(recorded) + 1, 'deliver')
        if k == len(recorded):
            break
        raw = recorded[k]
        rx._recv_datagram(conn.PacketHeader.from_bytes(True, raw), raw)
    got = [d for s_, d in rx.incoming_messages]
    for i, p in enumerate(payloads):
        n = sum(1 for g in got if g is p or bool(g == p)) if False else sum(1 for g in got if g is p)
        cnt = 0
        for g in got:
            if rope.full_view_blob(g) is rope.full_view_blob(p) if rope.isrope(g) and rope.isrope(p) else g == p:
                cnt += 1
        check(cnt <= 1, 'each sent message is delivered at most once')
    check(len(got) <= nmsg, 'nothing is delivered that was not sent')


R.add('L4.4', l44, lambda tier: [dict(nmsg=3, steps=(4 if tier == 'quick' else 6))],
      desc='three messages (any retry modes, piggy-backed retransmissions) in three recorded datagrams delivered in any order with '
           'repeats: each message at most once',
      expect=['each sent message is delivered at most once'], bounds='3 datagrams, <= 4 (thorough 6) deliveries, sequence numbers from the start and across the wrap')


# ------------------------------------------------------------------ L4.5 the client API hands each message out once
def l45(n):
    """UdpClient.hasMessages/getMessage/getMessages are the application's view of the client's inbox: every message
    that was delivered is handed out exactly once, in order, by whatever mix of the two getters; duplicates of the
    datagrams add nothing"""
    clock = proto.clock_at(100.0)
    u = proto.client_mod.UdpClient()
    u.conn = proto.mk_client_side(clock=clock)
    rx = u.conn
    tx = proto.mk_base(server=True, clock=clock)
    check(u.hasMessages() is False and u.getMessages() == [], 'an empty inbox is empty')
    sent, raws = [], []
    for i in range(n):
        payload, L = rope.blob('p%d' % i, 0, 50)
        tx.send(payload, RetryMode.NONE, None)
        pkt = tx._build_packet_impl(100.0, False, 0.1)
        raw = tx._encode_packet(pkt)
        raws.append(raw)
        rx._recv_datagram(conn.PacketHeader.from_bytes(False, raw), raw)
        sent.append(payload)
    check(u.hasMessages() is (n > 0), 'hasMessages <=> something was delivered')
    k = choose(n + 1, 'single_reads')              # getMessage k times, then getMessages for the rest
    got = []
    for i in range(k):
        got.append(u.getMessage())
    # a duplicate of the first datagram arrives between the reads
    if n:
        rx._recv_datagram(conn.PacketHeader.from_bytes(False, raws[0]), raws[0])
    rest = u.getMessages()
    got.extend(rest)
    check(len(got) == n, 'every delivered message is handed out exactly once')
    for (seq, data), want in zip(got, sent):
        check(rope.rope_eq(data, want), 'messages are handed out in order with their payload')
    check(u.hasMessages() is False and u.getMessages() == [], 'the inbox is empty after it was read')
    try:
        u.getMessage()
        check(False, 'getMessage on an empty inbox raises IndexError')
    except IndexError:
        pass


R.add('L4.5', l45, lambda tier: [dict(n=n) for n in ((0, 1, 2) if tier == 'quick' else (0, 1, 2, 3, 4))],
      desc='UdpClient.hasMessages/getMessage/getMessages: each delivered message handed to the application once, in order, '
           'for every mix of the getters, with a duplicate datagram arriving between reads',
      expect=['every delivered message is handed out exactly once', 'the inbox is empty after it was read'],
      bounds='<= 2 (thorough 4) messages of <= 50 opaque bytes')


# ------------------------------------------------------------------ L4.6 the server hands each message to the handler once
def l46(nmsg):
    """real server loop: a connected client sends a batch of messages in one datagram; the handler raises on a symbolic
    subset of them; the client keeps talking (keep-alives) for several ticks.  However the handler behaves, no message
    is handed to it twice, and no message is handed to it that the client did not send."""
    from . import loop, c10
    A = ('10.0.0.1', 5001)
    pa = None
    boom = [bool(symbool('handler_raises_on%d' % i)) for i in range(nmsg)]

    def script(world, tick):
        nonlocal pa
        if tick == 1:
            pa = loop.Peer(world, A)
            pa.c._sendClientHello()
            world.inject(pa.emit(), A)
            return
        if tick == 4 and pa.c.status == Status.CONNECTED:
            pa.absorb()
            for i in range(nmsg):
                p, L = rope.blob('m%d' % i, 1, 40)
                pa.c.send(p, RetryMode.NONE, None)
                pa.sent_payloads.append(p)
            raw = pa.emit()
            if raw is not None:
                world.inject(raw, A)
            return
        # later: acks / keep-alives, and one more message two ticks after the batch
        c10.act(world, pa, 'app' if tick == 6 else 'reply', tick)

    world = loop.World(8, script)

    def handle_message(client, seqnum, msg):
        world.handler.events.append(('message', client, seqnum, msg))
        n = len([e for e in world.handler.events if e[0] == 'message'])
        if n - 1 < nmsg and boom[n - 1]:
            raise loop.HandlerBoom('message %d' % (n - 1))
    world.handler.handle_message = handle_message
    world.run()
    check(world.escaped is None, 'no exception leaves the server loop', escaped=repr(world.escaped))
    msgs = [e for e in world.handler.events if e[0] == 'message']

    def same(a, b):
        return a is b or (rope.isrope(a) and rope.isrope(b) and rope.full_view_blob(a) is rope.full_view_blob(b)) or \
            (isinstance(a, bytes) and isinstance(b, bytes) and a == b)
    for p in pa.sent_payloads:
        n = sum(1 for e in msgs if same(e[3], p))
        check(n <= 1, 'a message is handed to the handler at most once, whatever the handler does with its neighbours')
    for e in msgs:
        check(any(same(e[3], p) for p in pa.sent_payloads), 'the handler only sees messages the client sent')
    check(len(pa.sent_payloads) == nmsg + 1, 'the client was connected and sent its batch (and one more message later)')


R.add('L4.6', l46, lambda tier: [dict(nmsg=(3 if tier == 'quick' else 4))],
      desc='real server loop: batch of messages in one datagram, handler raising on any subset, client keeps sending keep-alives: '
           'each message handed to the handler at most once',
      expect=['a message is handed to the handler at most once, whatever the handler does with its neighbours',
              'the client was connected and sent its batch (and one more message later)'],
      bounds='3 (thorough 4) messages of 1..40 bytes in one datagram; 2^n handler-exception patterns; 8 loop ticks')


# ------------------------------------------------------------------ L4.7 retransmission behind a burst, API only
def l47(k):
    """two real endpoints, nothing injected: a BEST_EFFORT message is delivered, its ack is withheld, the sender then ships
    a burst of k newer messages (as many per datagram as fit), and after the resend interval the first message is
    retransmitted in a fresh datagram.  For every burst size inside the 256-message window the copy is not delivered
    again."""
    clock = proto.clock_at(100.0)
    tx = proto.mk_client_side(clock=clock)
    rx = proto.mk_server_side(clock=clock)
    first, fl = rope.blob('first', 1, 40)
    tx.send(first, RetryMode.BEST_EFFORT, None)

    def ship():
        pkt = tx._build_packet()
        if pkt is None:
            return False
        raw = tx._encode_packet(pkt)
        rx._recv_datagram(conn.PacketHeader.from_bytes(True, raw), raw)
        return True
    clock.advance(0.02)
    check(ship(), 'the first datagram leaves')
    for i in range(k):
        tx.send(b'n', RetryMode.NONE, None)
    for _ in range(4):
        clock.advance(0.02)                    # below the resend interval: the burst travels without the first message
        if not tx.outgoing_messages:
            break
        ship()
    check(len(tx.outgoing_messages) == 0, 'the burst has left')
    clock.advance(0.2)                         # past the resend interval: the unacknowledged message is sent again
    ship()
    copies = [d for s_, d in rx.incoming_messages if rope.isrope(d) and rope.full_view_blob(d) is rope.full_view_blob(first)
              or (isinstance(d, bytes) and isinstance(first, bytes) and d == first and len(d) != 1)]
    if core._rp() is not None:
        copies = [d for s_, d in rx.incoming_messages if d == first]
    check(len(copies) == 1, 'a retransmitted message that arrives behind a burst of newer messages is delivered once')
    check(len(rx.incoming_messages) == k + 1, 'every message of the burst is delivered once')


R.add('L4.7', l47, lambda tier: [dict(k=k) for k in ((1, 33, 40, 200) if tier == 'quick' else (1, 31, 32, 33, 40, 100, 200, 250))],
      desc='two real endpoints (API only): BEST_EFFORT message, ack withheld, burst of k newer messages, retransmission in a fresh '
           'datagram: delivered once',
      expect=['a retransmitted message that arrives behind a burst of newer messages is delivered once'],
      bounds='burst sizes 1, 33, 40, 200 (thorough also 31, 32, 100, 250) inside the 256-message window; payload of the first message 1..40 opaque bytes')

import sys as _sys  # noqa: E402
from . import loop as _loop, c10 as _c10, c11 as _c11  # noqa: E402
R.lemmas['L4.6'].replay = generic_replay(l46, [proto, _loop, _c10, _sys.modules[__name__]], patches=_c11.LOOPPATCH)
for _l in R.lemmas.values():
    if _l.replay is None:
        _l.replay = generic_replay(_l.func, [proto, _sys.modules[__name__]])

for _lid in ['L4.4', 'L4.5', 'L4.6', 'L4.7']:
    if _lid in R.lemmas:
        R.lemmas[_lid].api = True

get_harness = R.get_harness
