"""C01 - only datagrams authenticated under the session key can affect a connection.

L1.1 attacker-crafted datagram (any header, any body bytes, CRC made valid by the attacker) against a
     keyed endpoint in an arbitrary state: discarded, no effect but the drop counter.
L1.2 mutated copy of a genuine datagram (header rewrite / truncation / extension): discarded.
L1.3 keyless endpoints (client in CONNECTING, fresh server-side connection): nothing but a single
     handshake hello is processed; application messages are never delivered.
AEAD is ideal: decrypt succeeds only on a ciphertext blob the peer object really produced with the same
key, nonce and associated data; CRC is not a secret, the attacker always gets it right.
"""
import z3

import sx
from sx import core, rope
from sx.core import symint, symbool, symreal, symbv, check, assume, choose, SxInt, SxBool, E, And, Or, Not, Iff
from sx.models import env_m
from .common import Registry, real, generic_replay
from . import proto
from .proto import conn, Packet, PacketHeader, PacketType, SeqNum, RetryMode, Status, Rec, KEY

R = Registry('C01')
TYPES = ['UNKNOWN', 'CLIENT_HELLO', 'SERVER_HELLO', 'CHALLENGE_RESP', 'KEEP_ALIVE', 'DISCONNECT', 'APP', 'APP_FRAGMENT']


def endpoint(kind, clock, key=KEY, status=None):
    if kind == 'server':
        c = proto.mk_server_side(clock=clock, key=key, status=status)
        c.ctxt.connections[c.addr] = c
    else:
        c = proto.mk_client_side(clock=clock, key=key, status=status)
    return c


def arbitrary_state(c, now, npending=1):
    """semantic state an attacker datagram could disturb"""
    proto.havoc_counters(c)
    proto.sym_window(c)
    c.last_recv_time = symreal('last_recv', lo=0, hi=now)
    c.seq_sending = SeqNum(symint('seq_sending', 0, 65535))
    rec = Rec('pending')
    seen = []
    for i in range(npending):
        sv = symint('pending_seq%d' % i if i else 'pending_seq', 1, 65535)
        for o in seen:
            assume(sv != o)
        seen.append(sv)
        s = SeqNum(sv)
        c.pending_acks[s] = symreal('pending_sent%d' % i if i else 'pending_sent', lo=0, hi=now)
        c.pending_callbacks[s] = [rec]
    # a partially reassembled fragmented message and a queued outgoing message are part of the state too
    fr = conn.FragmentReceiver(c, 2, now)
    fr.fragments[0] = b'first half'
    c.received_fragments[SeqNum(symint('frag_ctx_id', 1, 65535))] = fr
    c.outgoing_messages.append(conn.PendingMessage(SeqNum(symint('queued_seq', 1, 65535)), PacketType.APP, b'queued', None, RetryMode.NONE))
    c.token = symint('token', 0, 2 ** 31 - 1)
    return rec


def crafted(reader_is_server, tname, body_hi=40, maxcount=2):
    """attacker datagram: every header field free, arbitrary body bytes, CRC correct for the region the
    header's length field designates (CRC-32 is public), arbitrary trailing bytes"""
    h = PacketHeader()
    h.isServer = not reader_is_server                 # addressed to the endpoint under attack
    h.ctime = symint('a_ctime', 0, 2 ** 32 - 1)
    h.pkt_type = getattr(PacketType, tname)
    h.seq = SeqNum(symint('a_seq', 0, 65535))
    h.ack = SeqNum(symint('a_ack', 0, 65535))
    h.ack_bits = symint('a_ack_bits', 0, 2 ** 32 - 1)
    h.length = symint('a_length', 0, 65535)
    h.count = symint('a_count', 0, 255)
    assume(h.count <= maxcount)                        # more inner messages repeat the same loop body
    body, nb = rope.blob('a_body', 0, body_hi, declare=5 * maxcount + 4)
    tail, nt = rope.blob('a_tail', 0, 24)
    hb = h.to_bytes()
    if bool(h.length <= nb):
        covered = hb + body[:h.length]
        raw = covered + conn.struct.pack('>L', env_m.crc32(covered) & 0xFFFFFFFF) + body[h.length:] + tail
    else:
        raw = hb + body + tail                         # shorter than the header claims
    return raw


def deliver(c, reader_is_server, raw):
    try:
        hdr = PacketHeader.from_bytes(reader_is_server, raw)
    except Exception:
        return None                                    # rejected before it reaches the connection
    return c._recv_datagram(hdr, raw)


# ------------------------------------------------------------------ L1.1
def l11(kind, tname, maxcount=2):
    now = symreal('now', lo=10, hi=4000000000)
    clock = proto.clock_at(now)
    c = endpoint(kind, clock)
    rec = arbitrary_state(c, now, npending=(1 if maxcount <= 2 else 2))
    handler_events = len(c.ctxt.handler.events) if kind == 'server' else 0
    before = proto.snapshot(c)
    dropped0 = c.stats.dropped
    raw = crafted(kind == 'server', tname, body_hi=20 * maxcount, maxcount=maxcount)
    ok = deliver(c, kind == 'server', raw)
    check(ok is not True, 'a datagram not produced with the session key is not accepted', type=tname)
    same, names = proto.unchanged(before, proto.snapshot(c))
    check(same, 'a forged datagram leaves key, status, liveness clock, windows, queues and pending sends untouched', type=tname)
    check(rec.calls == [], 'a forged datagram acknowledges / times out nothing')
    check(len(c.incoming_messages) == 0, 'a forged datagram delivers nothing to the application')
    if kind == 'server':
        check(len(c.ctxt.handler.events) == handler_events, 'no handler event from a forged datagram')
    check(Or(ok is None, c.stats.dropped == dropped0 + 1), 'a forged datagram is counted as dropped')


R.add('L1.1', l11, lambda tier: [dict(kind=k, tname=t, maxcount=(2 if tier == 'quick' else 3)) for k in ('server', 'client') for t in TYPES],
      desc='attacker datagram of every packet type (free header, arbitrary body, valid CRC) vs keyed endpoint in an arbitrary state',
      expect=['a datagram not produced with the session key is not accepted',
              'a forged datagram leaves key, status, liveness clock, windows, queues and pending sends untouched'],
      bounds='count <= 2 (thorough 3) inner messages, body <= 40 (60) + tail <= 24 arbitrary bytes, one pending datagram')


# ------------------------------------------------------------------ L1.2 mutated genuine datagram
def l12(kind):
    now = symreal('now', lo=10, hi=4000000000)
    clock = proto.clock_at(now)
    c = endpoint(kind, clock)
    rec = arbitrary_state(c, now)
    peer = proto.mk_base(server=(kind != 'server'), clock=clock)
    peer.seq_sending = SeqNum(symint('g_seq', 0, 65534))
    payload, L = rope.blob('payload', 0, 200)
    peer.send(payload, RetryMode.NONE, None)
    pkt = peer._build_packet_impl(now, False, 0.1)
    genuine = peer._encode_packet(pkt)
    ct = genuine[20:]
    nct = rope.sx_len(ct)
    # the attacker's copy: header fields rewritten at will, ciphertext cut at p, q junk bytes appended
    g = pkt.hdr
    h = PacketHeader()
    h.isServer = g.isServer
    h.ctime = symint('m_ctime', 0, 2 ** 32 - 1)
    h.pkt_type = getattr(PacketType, TYPES[choose(8, 'm_type')])
    h.seq = SeqNum(symint('m_seq', 0, 65535))
    h.ack = SeqNum(symint('m_ack', 0, 65535))
    h.ack_bits = symint('m_ack_bits', 0, 2 ** 32 - 1)
    h.length = symint('m_length', 0, 65535)
    h.count = symint('m_count', 0, 255)
    p = symint('cut', 0, 216)
    assume(p <= nct)
    junk, q = rope.blob('junk', 0, 24)
    same_hdr = And(h.ctime == g.ctime, h.pkt_type == g.pkt_type, h.seq == g.seq, h.ack == g.ack, h.ack_bits == g.ack_bits,
                   h.length == g.length, h.count == g.count)
    assume(Not(And(same_hdr, p == nct, q == 0)))        # an identical copy is a replay: C04
    raw = h.to_bytes() + ct[:p] + junk
    before = proto.snapshot(c)
    ok = deliver(c, kind == 'server', raw)
    check(ok is not True, 'a rewritten / truncated / extended copy of a genuine datagram is not accepted')
    same, names = proto.unchanged(before, proto.snapshot(c))
    check(same, 'a mutated copy has no effect on the connection')
    check(rec.calls == [] and len(c.incoming_messages) == 0, 'a mutated copy acknowledges and delivers nothing')


R.add('L1.2', l12, [dict(kind=k) for k in ('server', 'client')],
      desc='any header rewrite / truncation / extension of a genuine sealed datagram',
      expect=['a rewritten / truncated / extended copy of a genuine datagram is not accepted'],
      bounds='genuine datagram with one message <= 200 bytes; cut anywhere, <= 24 junk bytes appended')


# ------------------------------------------------------------------ L1.3 keyless endpoints
def l13(kind, tname, maxcount=2):
    now = symreal('now', lo=10, hi=4000000000)
    clock = proto.clock_at(now)
    c = endpoint(kind, clock, key=None, status=Status.CONNECTING if kind == 'client' else Status.DISCONNECTED)
    hello_calls = []
    # what a hello does is C02's subject; here: is anything else processed?
    c._recvServerHello = lambda data: hello_calls.append(('server_hello', data))
    c._recvClientHello = lambda data: hello_calls.append(('client_hello', data))
    other = []
    c._recvChallengeResponse = lambda data: other.append('challenge')
    status0 = c.status
    raw = crafted(kind == 'server', tname, body_hi=20 * maxcount, maxcount=maxcount)
    ok = deliver(c, kind == 'server', raw)
    check(len(c.incoming_messages) == 0, 'no application message is delivered from an unencrypted datagram', type=tname)
    check(len(c.received_fragments) == 0, 'no fragment is stored from an unencrypted datagram', type=tname)
    check(c.status == status0, 'an unencrypted datagram does not change the connection status', type=tname)
    check(other == [], 'no challenge response is processed before a key exists', type=tname)
    expected = 'SERVER_HELLO' if kind == 'client' else 'CLIENT_HELLO'
    if tname != expected:
        check(hello_calls == [], 'nothing but the expected hello type is dispatched', type=tname)
        check(ok is not True, 'datagrams of other types are not accepted before a key exists', type=tname)
    else:
        check(len(hello_calls) <= 1, 'at most the single hello is dispatched', type=tname)
    check(c.session_key_bytes is None, 'still keyless')


R.add('L1.3', l13, lambda tier: [dict(kind=k, tname=t, maxcount=(2 if tier == 'quick' else 3)) for k in ('server', 'client') for t in TYPES],
      desc='CRC-valid datagram of every type / count / inner types vs a keyless endpoint',
      expect=['no application message is delivered from an unencrypted datagram', 'nothing but the expected hello type is dispatched',
              'at most the single hello is dispatched'],
      bounds='count <= 2 (thorough 3) inner messages, body <= 40 (60) arbitrary bytes')


# ------------------------------------------------------------------ L1.4 the server gate: a half-open connection holds a key too
def l14():
    """through the real server loop: an honest client at address A has sent its hello, the server has derived the
    session key and answered (A sits in the pool of half-open connections).  Before A's challenge response arrives,
    an attacker injects one unauthenticated datagram with A's address as its source - any header type with a valid
    CRC and arbitrary body bytes, or a hello-typed datagram.  The server-side connection object of A, its key, token
    and status are untouched, and A's genuine challenge response still completes the handshake."""
    from . import loop, c11
    A = c11.A
    pa = None
    snap = {}

    def script(world, tick):
        nonlocal pa
        if tick == 1:
            pa = loop.Peer(world, A)
            pa.c._sendClientHello()
            world.inject(pa.emit(), A)
            return
        if tick == 3:
            sv = world.ctxt.temp_connections.get(A)
            if sv is not None:
                snap['obj'] = sv
                snap['before'] = (sv.session_key_bytes, sv.token, sv.status)
            kind = ['forged_header', 'tiny_hello'][choose(2, 'forged_kind')]
            world.inject(c11.hostile(kind, tick, world, pa), A)
        if tick == 4:
            now = world.ctxt.temp_connections.get(A)
            snap['after_obj'] = now
            if now is not None:
                snap['after'] = (now.session_key_bytes, now.token, now.status)
        if tick >= 4:
            c11.loop_reply(world, pa)          # A reads the server hello and answers the challenge; later: keep-alives

    world = loop.World(8, script)
    world.run()
    check(world.escaped is None, 'no exception leaves the server loop', escaped=repr(world.escaped))
    check('obj' in snap and snap['obj'].session_key_bytes is not None, 'the half-open connection holds a session key before the forgery arrives')
    check(snap.get('after_obj') is snap.get('obj'), 'an unauthenticated datagram does not replace the half-open connection of the address it claims')
    if 'after' in snap:
        check(snap['after'][0] is snap['before'][0] and bool(snap['after'][1] == snap['before'][1]) and snap['after'][2] == snap['before'][2],
              'key, token and status of the half-open connection are untouched by an unauthenticated datagram')
    ev = world.handler.events
    check(len([e for e in ev if e[0] == 'connect' and e[1].addr == A]) == 1,
          'the genuine challenge response still completes the handshake (connect event for A)')
    check(pa.c.status == Status.CONNECTED, 'the honest client is connected')


R.add('L1.4', l14, [{}],
      desc='real server loop: forged CRC datagram (any type / hello-typed) from the address of a half-open connection that already '
           'holds a key: connection object, key, token, status untouched; the genuine handshake completes',
      expect=['an unauthenticated datagram does not replace the half-open connection of the address it claims',
              'the genuine challenge response still completes the handshake (connect event for A)'],
      bounds='one forged datagram (free header fields, <= 5 arbitrary body bytes, or a hello-typed datagram with 3 arbitrary message bytes); 8 loop ticks')

# ------------------------------------------------------------------ L1.6 the server gate for an established, quiet connection
def l16():
    """through the real server loop: an honest client at address A completes the handshake, then is quiet for an arbitrary
    time below the connection timeout.  An attacker injects one unauthenticated datagram with A's address as its source
    (any header type with a valid CRC, or a hello-typed datagram).  A's connection object stays in the pool with its key,
    token and status, the handler sees no disconnect, and A's next genuine message is delivered to the application."""
    from . import loop, c11
    A = c11.A
    pa = None
    snap = {}
    sent = []

    def script(world, tick):
        nonlocal pa
        if tick == 1:
            pa = loop.Peer(world, A)
            pa.c._sendClientHello()
            world.inject(pa.emit(), A)
            return
        if tick <= 5:
            c11.loop_reply(world, pa)
            return
        if tick == 6:
            sv = world.ctxt.connections.get(A)
            if sv is not None:
                snap['obj'] = sv
                snap['before'] = (sv.session_key_bytes, sv.token, sv.status)
                gap = symreal('quiet_for', lo=0, hi=4.5)          # below the 5 s connection timeout
                world.clock.advance(gap)
                kind = ['forged_header', 'tiny_hello'][choose(2, 'forged_kind')]
                world.inject(c11.hostile(kind, tick, world, pa), A)
            return
        if tick == 7:
            now = world.ctxt.connections.get(A)
            snap['after_obj'] = now
            if now is not None:
                snap['after'] = (now.session_key_bytes, now.token, now.status)
            snap['events7'] = list(world.handler.events)
            pa.absorb()
            p = b'still here after the forgery'
            pa.c.send(p, RetryMode.NONE, None)
            sent.append(p)
        c11.loop_reply(world, pa)

    world = loop.World(9, script)
    world.run()
    check(world.escaped is None, 'no exception leaves the server loop', escaped=repr(world.escaped))
    check('obj' in snap, 'the honest client was connected before the forgery arrives')
    check(snap.get('after_obj') is snap.get('obj'),
          'an unauthenticated datagram does not remove or replace the established connection of the address it claims')
    if 'after' in snap:
        check(snap['after'][0] is snap['before'][0] and bool(snap['after'][1] == snap['before'][1]) and snap['after'][2] == snap['before'][2],
              'key, token and status of the established connection are untouched by an unauthenticated datagram')
    check(not any(e[0] == 'disconnect' and e[1].addr == A for e in snap.get('events7', [])),
          'no disconnect event for the client whose address was forged')
    ev = world.handler.events
    check(len([e for e in ev if e[0] == 'connect' and e[1].addr == A]) == 1, 'exactly one connect event for the honest client')
    check(len([e for e in ev if e[0] == 'message' and e[1] is snap.get('obj') and e[3] == sent[0]]) == 1 if sent else False,
          "the honest client's next message is delivered on its original connection")


R.add('L1.6', l16, [{}],
      desc='real server loop: forged CRC datagram (any type / hello-typed) from the address of an established connection that has been '
           'quiet for 0..4.5 s: connection object, key, token, status untouched, no disconnect event, the next genuine message is delivered',
      expect=['an unauthenticated datagram does not remove or replace the established connection of the address it claims',
              "the honest client's next message is delivered on its original connection"],
      bounds='one forged datagram (free header fields, <= 5 arbitrary body bytes, or a hello-typed datagram with 3 arbitrary message bytes); '
             'quiet time any real in [0, 4.5] s; 9 loop ticks')

# ------------------------------------------------------------------ L1.5 a real hello does not open the door for its neighbours
# keyless server-side connection, one clear-text datagram with two inner messages, the *real* hello handler (which installs
# the session key while the datagram is still being processed): whatever travels next to the hello is not processed.
# Same harness as C02 L2.4.
from . import c02 as _c02  # noqa: E402

R.add('L1.5', _c02.l24, [dict(count=2)],
      desc='keyless server-side connection, clear-text datagram with two inner messages (real hello handler): no application '
           'message, no fragment, no promotion from what travels next to the hello',
      expect=['nothing that travels in a clear-text datagram next to a hello reaches the application'],
      bounds='2 inner messages of any of 7 types; hello of any protocol version / challenge with any token / junk <= 3 bytes')

import sys as _sys  # noqa: E402
from . import loop as _loop, c11 as _c11  # noqa: E402
R.lemmas['L1.4'].replay = generic_replay(l14, [proto, _loop, _c11, _sys.modules[__name__]], patches=_c11.LOOPPATCH)
R.lemmas['L1.6'].replay = generic_replay(l16, [proto, _loop, _c11, _sys.modules[__name__]], patches=_c11.LOOPPATCH)
R.lemmas['L1.5'].replay = generic_replay(_c02.l24, [proto, _c02, _sys.modules[__name__]])
for _l in R.lemmas.values():
    if _l.replay is None:
        _l.replay = generic_replay(_l.func, [proto, _sys.modules[__name__]])

for _lid in ['L1.4']:
    if _lid in R.lemmas:
        R.lemmas[_lid].api = True

get_harness = R.get_harness
