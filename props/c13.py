"""C13 - serializer: decode(encode(v)) == v and encodings are self-delimiting.

Value *shapes* (type trees) are enumerated; all leaf *values* are symbolic: unbounded ints, Bool
terms, uninterpreted float tokens, opaque str/bytes of symbolic length, enum members by symbolic
index.  The real serialize_value / Serializable.loadb run on ropes through the BytesIO/struct models.
"""
import itertools

import os

import z3

import sx
from sx import core, rope, text
from sx.core import (check, assume, choose, symbool, symint, SxBool, SxInt, E, And, Or, Not, Iff)
from sx.floats import FloatTok
from sx.values import SxDict, SxSet
from .common import Registry, real, exclude_known

ser = sx.load('serializable')
Serializable, SerializableEnum = ser.Serializable, ser.SerializableEnum
BytesIO = ser.BytesIO
R = Registry('C13')


class ColorE(SerializableEnum):
    RED = 1
    GREEN = 2
    BLUE = 300


class TagE(SerializableEnum):
    A = b"aa"
    B = b"bb"


class Leaf3(Serializable):
    a: int = 0
    b: str = ""
    c: list = None


class Nest(Serializable):
    inner: Leaf3 = None
    flag: bool = False


LEAVES = ['bool', 'int', 'float', 'str', 'bytes', 'none', 'enumi', 'enumb']
HASHABLE = ['bool', 'int', 'float', 'str', 'bytes', 'none', 'enumi']


# ------------------------------------------------------------------ symbolic values from shapes
def mkval(shape, name):
    k = shape[0]
    if k == 'bool':
        return symbool(name)
    if k == 'int':
        return symint(name)
    if k == 'float':
        return FloatTok(name, nan=symbool(name + '_isnan'), big=symbool(name + '_toobig'))
    if k == 'str':
        return text.opaque(name)
    if k == 'bytes':
        return rope.blob(name, 0, None)[0]
    if k == 'none':
        return None
    if k == 'enumi':
        i = choose(3, name + '_member')
        return [ColorE.RED, ColorE.GREEN, ColorE.BLUE][i]
    if k == 'enumb':
        i = choose(2, name + '_member')
        return [TagE.A, TagE.B][i]
    if k == 'list':
        return [mkval(s, '%s_%d' % (name, i)) for i, s in enumerate(shape[1])]
    if k == 'tuple':
        return tuple(mkval(s, '%s_%d' % (name, i)) for i, s in enumerate(shape[1]))
    if k == 'set':
        return SxSet(mkval(s, '%s_%d' % (name, i)) for i, s in enumerate(shape[1]))
    if k == 'dict':
        d = SxDict()
        for i, (ks, vs) in enumerate(shape[1]):
            d[mkval(ks, '%s_k%d' % (name, i))] = mkval(vs, '%s_v%d' % (name, i))
        return d
    if k == 'leaf3':
        o = Leaf3()
        o.a = mkval(shape[1][0], name + '_a')
        o.b = mkval(shape[1][1], name + '_b')
        o.c = mkval(shape[1][2], name + '_c')
        return o
    if k == 'nest':
        o = Nest()
        o.inner = mkval(shape[1][0], name + '_inner')
        o.flag = mkval(shape[1][1], name + '_flag')
        return o
    raise ValueError(shape)


def deq(a, b):
    """deep equality modulo tuple->list; returns bool / SxBool (no forks except container sizes)"""
    if isinstance(a, FloatTok) or isinstance(b, FloatTok):
        if isinstance(a, FloatTok) and isinstance(b, FloatTok):
            return a.key == b.key       # same source value (float32 image; NaN equals NaN here)
        return False
    if isinstance(a, (list, tuple)):
        if not isinstance(b, (list, tuple)) or len(a) != len(b):
            return False
        return And(*[deq(x, y) for x, y in zip(a, b)])
    if isinstance(a, SxSet):
        if not isinstance(b, SxSet):
            return False
        la, lb = list(a), list(b)
        if len(la) != len(lb):
            return False
        return And(*[Or(*[deq(x, y) for y in lb]) for x in la]) if la else True
    if isinstance(a, SxDict):
        if not isinstance(b, SxDict):
            return False
        ia, ib = a.items(), b.items()
        if len(ia) != len(ib):
            return False
        return And(*[Or(*[And(deq(k, k2), deq(v, v2)) for k2, v2 in ib]) for k, v in ia]) if ia else True
    if isinstance(a, Serializable):
        if type(a) is not type(b):
            return False
        return And(*[deq(getattr(a, f), getattr(b, f)) for f in a._fields])
    if isinstance(a, SerializableEnum):
        if type(a) is not type(b):
            return False
        return deq(a.value, b.value)
    if a is None or b is None:
        return a is None and b is None
    if isinstance(a, (SxBool, bool)):
        if not isinstance(b, (SxBool, bool)):
            return False
        return Iff(a, b)
    if isinstance(b, (SxBool, bool)):
        return False
    if isinstance(a, (int, SxInt)) != isinstance(b, (int, SxInt)):
        return False
    if text.istext(a) or isinstance(a, str):
        if not (text.istext(b) or isinstance(b, str)):
            return False
    if rope.isrope(a) or isinstance(a, bytes):
        if not (rope.isrope(b) or isinstance(b, bytes)):
            return False
    r = (a == b)
    return False if r is NotImplemented else r


# ------------------------------------------------------------------ shape enumeration
def shapes(tier):
    out = [(l,) for l in LEAVES]
    L = [(l,) for l in LEAVES]
    H = [(l,) for l in HASHABLE]
    for kind in ('list', 'tuple'):
        out.append((kind, []))
        out += [(kind, [a]) for a in L]
    out += [('list', [a, b]) for a in L for b in L]
    out += [('tuple', [a, a]) for a in L]
    out.append(('set', []))
    out += [('set', [a]) for a in H]
    out += [('set', [a, a]) for a in H]
    out += [('set', [('int',), ('str',)]), ('set', [('bool',), ('int',)])]
    out.append(('dict', []))
    out += [('dict', [(k, v)]) for k in H for v in L]
    out += [('dict', [(k, ('int',)), (k, ('str',))]) for k in H]
    out += [('dict', [(('int',), ('int',)), (('str',), ('bytes',))])]
    out += [('leaf3', [('int',), ('str',), ('list', [('int',)])]), ('leaf3', [('int',), ('str',), ('none',)]),
            ('leaf3', [('none',), ('bytes',), ('dict', [(('str',), ('int',))])]),
            ('nest', [('leaf3', [('int',), ('str',), ('list', [])]), ('bool',)]), ('nest', [('none',), ('bool',)]),
            ('list', [('leaf3', [('int',), ('str',), ('none',)])]),
            ('list', [('list', [('int',)])]), ('list', [('list', [('int',), ('str',)]), ('list', [])]),
            ('dict', [(('str',), ('list', [('int',), ('int',)]))]),
            ('dict', [(('int',), ('dict', [(('str',), ('bytes',))]))]),
            ('tuple', [('tuple', [('int',), ('int',)]), ('float',)]),
            ('list', [('set', [('int',)])]),
            ('dict', [(('enumi',), ('nest', [('none',), ('bool',)]))])]
    # shapes the decoder cannot rebuild (tuples decode as lists, which are unhashable): known finding F13a
    out += [('dict', [(('tuple', [('int',), ('int',)]), ('int',))]), ('set', [('tuple', [('int',)])])]
    if tier == 'thorough':
        out += [('list', [a, b, c]) for a in L[:4] for b in L[:4] for c in L[:4]]
        out += [('dict', [(k, v), (k2, v2)]) for k in H[:4] for v in L[:3] for k2 in H[:4] for v2 in L[:3]]
        out += [('list', [('list', [a]), ('dict', [(k, a)])]) for a in L for k in H[:3]]
        out += [('nest', [('leaf3', [a, ('str',), ('list', [b])]), ('bool',)]) for a in L for b in L]
    return out


def has_tuple_key(shape):
    k = shape[0]
    if k == 'dict':
        return any(ks[0] == 'tuple' or has_tuple_key(ks) or has_tuple_key(vs) for ks, vs in shape[1])
    if k == 'set':
        return any(s[0] == 'tuple' or has_tuple_key(s) for s in shape[1])
    if k in ('list', 'tuple', 'leaf3', 'nest'):
        return any(has_tuple_key(s) for s in shape[1])
    return False


NB = 16


def l131(batch, tier):
    sh = shapes(tier)
    mine = sh[batch::NB]
    shape = mine[choose(len(mine), 'shape')]
    exclude_known('L13.1', 'C13', dict(tuple_key=has_tuple_key(shape)))
    v = mkval(shape, 'v')
    tail, tl = rope.blob('tail', 0, None)
    stream = BytesIO()
    try:
        ser.serialize_value(stream, v)
    except Exception as ex:
        # refusal is allowed only outside the domain
        out_of_domain = refusal_allowed(shape, v, ex)
        check(out_of_domain, 'a value inside the domain is never refused', shape=repr(shape), error=type(ex).__name__)
        return
    enc = stream.getvalue()
    n = rope.sx_len(enc)
    rd = BytesIO(enc + tail)
    try:
        w = Serializable.loadb(rd)
    except Exception as ex:
        core.fail('decoding a produced encoding raised', shape=repr(shape), error=type(ex).__name__ + ': ' + str(ex)[:80])
    check(deq(v, w), 'decode(encode(v)) == v', shape=repr(shape))
    check(rd.tell() == n, 'decoding consumes exactly the encoded bytes', shape=repr(shape))
    rest = rd.read()
    check(rest == tail, 'bytes after the encoding are left untouched', shape=repr(shape))
    # second value right behind the first
    stream2 = BytesIO()
    ser.serialize_value(stream2, v)
    ser.serialize_value(stream2, 7)
    rd2 = BytesIO(stream2.getvalue())
    w1 = Serializable.loadb(rd2)
    w2 = Serializable.loadb(rd2)
    check(And(deq(v, w1), w2 == 7), 'concatenated encodings decode one after another', shape=repr(shape))


def _leaves(v):
    """all leaves of a value (type-driven walk)"""
    if isinstance(v, (list, tuple)):
        for x in v:
            yield from _leaves(x)
    elif isinstance(v, SxSet):
        for x in list(v):
            yield from _leaves(x)
    elif isinstance(v, SxDict):
        for k, x in v.items():
            yield from _leaves(k)
            yield from _leaves(x)
    elif isinstance(v, Serializable):
        for f in v._fields:
            yield from _leaves(getattr(v, f))
    elif isinstance(v, SerializableEnum):
        yield from _leaves(v.value)
    else:
        yield v


def _ints(shape, v):
    return [x for x in _leaves(v) if isinstance(x, (int, SxInt)) and not isinstance(x, bool)]


def _sized(shape, v):
    out = []
    for x in _leaves(v):
        if text.istext(x) or isinstance(x, str):
            out.append(('str', x))
        elif rope.isrope(x) or isinstance(x, bytes):
            out.append(('bytes', x))
    return out


def _has(shape, kind):
    if shape[0] == kind:
        return True
    if shape[0] == 'dict':
        return any(_has(a, kind) or _has(b, kind) for a, b in shape[1])
    if len(shape) > 1:
        return any(_has(s, kind) for s in shape[1])
    return False


def refusal_allowed(shape, v, ex):
    """the documented domain: 64-bit ints, str/bytes up to 2**20 encoded bytes, float32-representable floats"""
    conds = []
    for i in _ints(shape, v):
        conds.append(Or(i < -2 ** 63, i > 2 ** 63 - 1))
    for kind, s in _sized(shape, v):
        if kind == 'bytes':
            conds.append(rope.sx_len(s) > ser.MAX_BYTES_LENGTH)
        else:
            conds.append(rope.sx_len(s.encode('utf-8')) > ser.MAX_BYTES_LENGTH)
    if _has(shape, 'float') and isinstance(ex, OverflowError):
        return True        # a double outside the float32 range
    return Or(*conds) if conds else False


def concrete_val(shape, name, m):
    k = shape[0]
    s = real('mpgameserver.serializable')
    if k == 'bool':
        return bool(m.get(name, False))
    if k == 'int':
        return int(m.get(name, 0))
    if k == 'float':
        return float('nan') if m.get(name + '_isnan') else (1e300 if m.get(name + '_toobig') else 1.5)
    if k == 'str':
        c = min(m.get(name + '_chars', 0), (1 << 20) + 8)
        u = m.get('utf8len:' + name, c)
        extra = max(0, min(u - c, 3 * c))
        out = []
        for _ in range(c):
            take = min(extra, 3)
            extra -= take
            out.append(['x', '\u00e9', '\u20ac', '\U0001F600'][take])
        return ''.join(out)
    if k == 'bytes':
        return bytes(min(m.get(name + '_len', 0), 1 << 21))
    if k == 'none':
        return None
    if k in ('enumi', 'enumb'):
        i = [v for kk, v in m.items() if kk.startswith(name + '_member')][0]
        return (REAL['ColorE'], REAL['TagE'])[k == 'enumb'](([1, 2, 300], [b'aa', b'bb'])[k == 'enumb'][i])
    if k == 'list':
        return [concrete_val(x, '%s_%d' % (name, i), m) for i, x in enumerate(shape[1])]
    if k == 'tuple':
        return tuple(concrete_val(x, '%s_%d' % (name, i), m) for i, x in enumerate(shape[1]))
    if k == 'set':
        return set(concrete_val(x, '%s_%d' % (name, i), m) for i, x in enumerate(shape[1]))
    if k == 'dict':
        return {concrete_val(ks, '%s_k%d' % (name, i), m): concrete_val(vs, '%s_v%d' % (name, i), m) for i, (ks, vs) in enumerate(shape[1])}
    if k == 'leaf3':
        o = REAL['Leaf3']()
        o.a, o.b, o.c = (concrete_val(shape[1][0], name + '_a', m), concrete_val(shape[1][1], name + '_b', m),
                         concrete_val(shape[1][2], name + '_c', m))
        return o
    if k == 'nest':
        o = REAL['Nest']()
        o.inner, o.flag = concrete_val(shape[1][0], name + '_inner', m), concrete_val(shape[1][1], name + '_flag', m)
        return o


REAL = {}


def real_classes():
    if REAL:
        return
    s = real('mpgameserver.serializable')

    class ColorE(s.SerializableEnum):
        RED = 1
        GREEN = 2
        BLUE = 300

    class TagE(s.SerializableEnum):
        A = b"aa"
        B = b"bb"

    class Leaf3(s.Serializable):
        a: int = 0
        b: str = ""
        c: list = None

    class Nest(s.Serializable):
        inner: Leaf3 = None
        flag: bool = False
    REAL.update(ColorE=ColorE, TagE=TagE, Leaf3=Leaf3, Nest=Nest)


def norm(x):
    import math
    s = real('mpgameserver.serializable')
    if isinstance(x, (list, tuple)):
        return [norm(y) for y in x]
    if isinstance(x, set):
        return ('set', sorted((repr(norm(y)) for y in x)))
    if isinstance(x, dict):
        return ('dict', sorted((repr(norm(k)), repr(norm(v))) for k, v in x.items()))
    if isinstance(x, s.Serializable):
        return (type(x).__name__, [norm(getattr(x, f)) for f in x._fields])
    if isinstance(x, s.SerializableEnum):
        return (type(x).__name__, x.value)
    if isinstance(x, float):
        import struct
        try:
            y = struct.unpack('>f', struct.pack('>f', x))[0]
        except OverflowError:
            return 'overflow'
        return 'nan' if math.isnan(y) else y
    if isinstance(x, bool):
        return ('bool', x)
    return x


def replay_l131(cfg, m):
    import io
    real_classes()
    s = real('mpgameserver.serializable')
    sh = shapes(cfg['tier'])
    mine = sh[cfg['batch']::NB]
    shape = mine[[v for k, v in m.items() if k.startswith('shape')][0]]
    v = concrete_val(shape, 'v', m)
    st = io.BytesIO()
    try:
        s.serialize_value(st, v)
    except Exception as ex:
        # inside the domain?
        def ok_int(x):
            return -2 ** 63 <= x <= 2 ** 63 - 1
        ints = [m[k] for k in m if isinstance(m[k], int) and not isinstance(m[k], bool) and not k.endswith('_len') and '#' not in k]
        big = any(not ok_int(i) for i in ints) or any(m[k] > 2 ** 20 for k in m if k.endswith('_len'))
        big = big or any(isinstance(m[k], str) and len(m[k].encode('utf-8', 'surrogatepass')) > 2 ** 20 for k in m)
        return (not big), 'serialize raised %r for %r' % (ex, shape)
    enc = st.getvalue()
    tail = b'\x01\x02\x03'
    rd = io.BytesIO(enc + tail)
    try:
        w = s.Serializable.loadb(rd)
    except Exception as ex:
        return True, 'decoding the encoding of shape %r raised %s: %s' % (shape, type(ex).__name__, ex)
    bad = norm(w) != norm(v) or rd.tell() != len(enc) or rd.read() != tail
    return bad, 'shape %r: %r -> %r' % (shape, v, w)


R.add('L13.1', l131, lambda tier: [dict(batch=b, tier=tier) for b in range(NB)], replay=replay_l131,
      desc='decode(encode(v)) == v, position == len(enc), tail untouched, concatenation; all leaf values symbolic',
      expect=['decode(encode(v)) == v', 'decoding consumes exactly the encoded bytes',
              'concatenated encodings decode one after another', 'a value inside the domain is never refused'],
      bounds='type trees of depth <= 2 (a selection of depth 3), container arity <= 2 (thorough 3); ints unbounded, '
             'str/bytes of any length, floats as uninterpreted tokens')


# ------------------------------------------------------------------ L13.2 class hierarchies
_HCOUNT = [0]


def mk_hierarchy(S):
    """three user message classes, two of them derived from the first (one adds a field, one does not).  Fresh names
    per call: the registry refuses to register a name twice."""
    _HCOUNT[0] += 1
    tag = '%d_%d' % (os.getpid(), _HCOUNT[0])
    ns = {}
    src = ('class HEnt%(t)s(S):\n    x: int = 0\n    name: str = ""\n'
           'class HPlayer%(t)s(HEnt%(t)s):\n    hp: int = 0\n'
           'class HNpc%(t)s(HEnt%(t)s):\n    pass\n') % dict(t=tag)
    exec(src, {'S': S}, ns)
    return ns['HEnt' + tag], ns['HPlayer' + tag], ns['HNpc' + tag]


def l132():
    """a message class derived from another message class is still its own type: whatever the order in which the
    classes are first used, an instance decodes to an instance of its own class with its own fields, alone, nested
    in a list, and in a concatenated stream"""
    Ent, Player, Npc = mk_hierarchy(Serializable)
    classes = [Ent, Player, Npc]
    perm = [(0, 1, 2), (0, 2, 1), (1, 0, 2), (1, 2, 0), (2, 0, 1), (2, 1, 0)][choose(6, 'first_use_order')]
    vals = {}
    for i in perm:
        cls = classes[i]
        v = cls()
        v.x = symint('x%d' % i, -2 ** 63, 2 ** 63 - 1)
        v.name = text.opaque('name%d' % i)
        assume(text.sx_len(v.name) <= 50)
        if cls is Player:
            v.hp = symint('hp', -2 ** 63, 2 ** 63 - 1)
        vals[i] = v
        enc = v.dumpb()
        try:
            w = Serializable.loadb(enc)
        except Exception as ex:
            core.fail('decoding a produced encoding raised', error=type(ex).__name__, cls=cls.__name__[:7])
        check(type(w) is cls, 'an instance decodes to an instance of its own class', cls=cls.__name__[:7])
        # the wire format of a class is the fields the class itself declares (its _fields; the constructor refuses
        # inherited names too): those are what is compared
        if cls is Ent:
            check(And(w.x == v.x, deq(v.name, w.name)), 'the fields a class declares are reproduced', cls=cls.__name__[:7])
        if cls is Player:
            check(w.hp == v.hp, 'the fields a class declares are reproduced', cls=cls.__name__[:7])
    # nested and concatenated
    stream = BytesIO()
    lst = [vals[0], vals[1], vals[2]]
    ser.serialize_value(stream, lst)
    ser.serialize_value(stream, 7)
    rd = BytesIO(stream.getvalue())
    try:
        back = Serializable.loadb(rd)
        seven = Serializable.loadb(rd)
    except Exception as ex:
        core.fail('decoding a produced encoding raised', error=type(ex).__name__, cls='list')
    check(len(back) == 3 and all(type(b) is type(a) for a, b in zip(lst, back)), 'instances nested in a list keep their classes')
    check(seven == 7, 'the next value of a concatenated stream decodes')


R.add('L13.2', l132, [{}], replay='GENERIC',
      desc='message classes derived from another message class (adding a field / adding none), every order of first use: '
           'decode(encode(v)) is an instance of v\'s own class with the fields that class declares; nested in a list; concatenated stream',
      expect=['an instance decodes to an instance of its own class', 'instances nested in a list keep their classes'],
      bounds='one base class with two subclasses, 6 orders of first use; field values symbolic')


# ------------------------------------------------------------------ L13.3 collection size limit
def l133(kind, lim):
    """collections larger than MAX_ARRAY_LENGTH are refused, collections up to it round-trip.  The encoder and decoder
    read the module constant at run time; the harness lowers it to `lim` (production: 16384) so that sizes around the
    limit can be unrolled."""
    saved = ser.MAX_ARRAY_LENGTH
    ser.MAX_ARRAY_LENGTH = lim
    try:
        n = lim - 1 + choose(3, 'size_offset')                 # lim-1, lim, lim+1
        elems = [symint('e%d' % i, -2 ** 63, 2 ** 63 - 1) for i in range(n)]
        if kind != 'list':
            for i in range(n):
                for j in range(i):
                    assume(elems[i] != elems[j])               # n distinct members / keys
        if kind == 'list':
            v = list(elems)
        elif kind == 'set':
            v = SxSet(elems) if core._rp() is None else set(elems)
        else:
            v = SxDict([(x, 7) for x in elems]) if core._rp() is None else {x: 7 for x in elems}
        stream = BytesIO()
        try:
            ser.serialize_value(stream, v)
            refused = False
        except Exception:
            refused = True
        check(refused == (n > lim), 'a collection is refused exactly when it has more than MAX_ARRAY_LENGTH members', kind=kind, n=n)
        if not refused:
            rd = BytesIO(stream.getvalue())
            try:
                w = Serializable.loadb(rd)
            except Exception as ex:
                core.fail('decoding a produced encoding raised', kind=kind, n=n, error=type(ex).__name__)
            check(deq(v, w), 'a collection of up to MAX_ARRAY_LENGTH members round-trips', kind=kind, n=n)
    finally:
        ser.MAX_ARRAY_LENGTH = saved


R.add('L13.3', l133, lambda tier: [dict(kind=k, lim=l) for k in ('list', 'set', 'dict') for l in ((2,) if tier == 'quick' else (2, 4))],
      replay='GENERIC',
      desc='list / set / dict with MAX_ARRAY_LENGTH-1, MAX_ARRAY_LENGTH, MAX_ARRAY_LENGTH+1 members (constant lowered to 2 / 4 for the '
           'unrolling): refused <=> over the limit, otherwise round trip',
      expect=['a collection is refused exactly when it has more than MAX_ARRAY_LENGTH members',
              'a collection of up to MAX_ARRAY_LENGTH members round-trips'],
      bounds='MAX_ARRAY_LENGTH set to 2 (thorough also 4) instead of 16384; members arbitrary distinct 64-bit ints')

# ------------------------------------------------------------------ L13.4 two types with the same short name
def mk_same_name(S, SE):
    """two enums that share their short name (nested in different owners of one module): distinct types keep distinct
    type ids.  (Message classes must have unique names - the registry refuses a second one - so only enums can collide.)"""
    _HCOUNT[0] += 1
    tag = '%d_%d' % (os.getpid(), _HCOUNT[0])
    ns = {}
    src = ('class Door%(t)s:\n'
           '    class State(SE):\n        SHUT = 1\n        OPEN = 2\n        LOCKED = 3\n'
           'class Light%(t)s:\n'
           '    class State(SE):\n        OFF = 1\n        ON = 2\n'
           ) % dict(t=tag)
    exec(src, {'S': S, 'SE': SE, '__name__': __name__}, ns)
    return ns['Door' + tag], ns['Light' + tag]


def l134():
    """types are told apart by identity, not by their short name: an enum member / message instance decodes to its own
    type whichever same-named type was defined or used first"""
    Door, Light = mk_same_name(Serializable, ser.SerializableEnum)
    vals = [Door.State.SHUT, Door.State.OPEN, Door.State.LOCKED, Light.State.OFF, Light.State.ON]
    v = vals[choose(len(vals), 'member')]
    try:
        st = BytesIO()
        ser.serialize_value(st, [v, 7])
        w, seven = ser.deserialize_value(BytesIO(st.getvalue()))
    except Exception as ex:
        core.fail('decoding a produced encoding raised', error=type(ex).__name__)
    check(type(w) is type(v) and w.value == v.value, 'an enum member decodes to the same member of its own enum type')
    check(seven == 7, 'the next value of the stream decodes')


R.add('L13.4', l134, [{}], replay='GENERIC',
      desc='two enums that share their short name (nested in different owners of one module): every member decodes to the same member of its own type',
      expect=['an enum member decodes to the same member of its own enum type'],
      bounds='2 enums (3 + 2 members), every member')

import sys as _sys  # noqa: E402
from .common import generic_replay  # noqa: E402
for _l in R.lemmas.values():
    if _l.replay == 'GENERIC':
        _l.replay = generic_replay(_l.func, [_sys.modules[__name__]])

for _lid in ['L13.1', 'L13.2', 'L13.3', 'L13.4']:
    if _lid in R.lemmas:
        R.lemmas[_lid].api = True

get_harness = R.get_harness
