"""C12 - keep-alives and timeouts: idle links stay up, dead peers are detected.

All times and settings are symbolic reals.  L12.1 keep-alive emission (both endpoints, through the
real UdpClient.update / ServerClientConnection.update), L12.2 liveness clock and timedout(),
L12.3 idle-link arithmetic, L12.4 client DROPPED / connect timeout (with and without callback),
L12.5 client setters before / after connect take effect and never raise.
"""
import z3

import sx
from sx import core, rope
from sx.core import symint, symbool, symreal, symbv, check, assume, choose, SxInt, SxBool, SxReal, E, And, Or, Not, Iff, ite
from .common import Registry, real, generic_replay
from . import proto
from .proto import conn, client_mod, Packet, PacketHeader, PacketType, SeqNum, RetryMode, Status, Rec, KEY

R = Registry('C12')
TMAX = 4000000000


def connected_client(clock, ka=None):
    u = client_mod.UdpClient()
    u.connect(('srv', 9), None)
    c = u.conn
    c.clock = clock
    c.outgoing_messages = []
    c.status = Status.CONNECTED
    c.session_key_bytes = KEY
    c.time_client_hello_sent = 0
    if ka is not None:
        u.setKeepAliveInterval(ka)
    return u, c


# ------------------------------------------------------------------ L12.1 keep-alive emission
def l121(kind):
    ka = symreal('keep_alive', lo=0.02, hi=3600)
    T0 = symreal('last_send', lo=0, hi=TMAX)
    now = symreal('now', lo=0, hi=TMAX)
    assume(now >= T0)
    clock = proto.clock_at(now)
    if kind == 'client':
        u, c = connected_client(clock, ka)
    else:
        c = proto.mk_server_side(clock=clock)
        c.send_keep_alive_interval = ka
    # invariant of _build_packet: both send clocks are set together
    c.last_send_time = T0
    c.last_send_keep_alive_time = T0
    c.last_recv_time = now
    if kind == 'client':
        u.update()
        sent = u.sock.sent
        emitted = len(sent) == 1
    else:
        out = c.update()
        emitted = out is not None
        if emitted:
            check(out[0].hdr.pkt_type == PacketType.KEEP_ALIVE, 'an idle connection emits a KEEP_ALIVE packet')
    due = (now - T0) > ka
    check(Or(Not(due), emitted), 'once the keep-alive interval has elapsed the next tick emits a datagram')
    check(Or(Not(emitted), due), 'no keep-alive before the interval has elapsed')
    if emitted:
        check(And(c.last_send_time == now, c.last_send_keep_alive_time == now), 'emission restarts the keep-alive timer')
    else:
        check(And(c.last_send_time == T0, c.last_send_keep_alive_time == T0), 'no emission: timers untouched')


R.add('L12.1', l121, [dict(kind='client'), dict(kind='server')],
      desc='idle CONNECTED endpoint: a tick emits a keep-alive iff more than the (symbolic) keep-alive interval has elapsed',
      expect=['once the keep-alive interval has elapsed the next tick emits a datagram', 'no keep-alive before the interval has elapsed',
              'emission restarts the keep-alive timer'],
      bounds='keep-alive interval 0.02..3600 s (above the 1/60 s send tick), arbitrary clocks')


# ------------------------------------------------------------------ L12.2 liveness clock
def l122():
    now = symreal('now', lo=0, hi=TMAX)
    clock = proto.clock_at(now)
    rx = proto.mk_server_side(clock=clock)
    tx = proto.mk_base(server=False, clock=clock)
    rx.last_recv_time = symreal('last_recv', lo=-1, hi=now)
    T = symreal('timeout', lo=0.001, hi=100000)
    check(Iff(rx.timedout(T), (now - rx.last_recv_time) >= T), 'timedout(T) <=> now - last_recv_time >= T')
    tx.send(b'x', RetryMode.NONE, None)
    pkt = tx._build_packet_impl(now, False, 0.1)
    raw = tx._encode_packet(pkt)
    ok = rx._recv_datagram(PacketHeader.from_bytes(True, raw), raw)
    check(ok is True and rx.last_recv_time == now, 'accepting a genuine datagram sets the liveness clock to now')
    check(Not(rx.timedout(T)), 'a peer that was just heard is not timed out')


R.add('L12.2', l122, [{}], desc='timedout() threshold; genuine datagram refreshes the liveness clock',
      expect=['timedout(T) <=> now - last_recv_time >= T', 'accepting a genuine datagram sets the liveness clock to now'])


# ------------------------------------------------------------------ L12.3 idle link arithmetic
def l123():
    ka = symreal('keep_alive', lo=0.02, hi=3600)
    tau = symreal('tick', lo=0.0001, hi=10)
    delta = symreal('delay_jitter', lo=0, hi=10)
    T = symreal('timeout', lo=0.001, hi=100000)
    assume(ka + tau + delta < T)
    # by L12.1 emissions are at most ka + tau apart; arrivals at most ka + tau + delta apart
    last_arrival = symreal('last_arrival', lo=0, hi=TMAX)
    t = symreal('t', lo=0, hi=TMAX)
    assume(And(t >= last_arrival, t - last_arrival <= ka + tau + delta))      # before the next arrival
    check((t - last_arrival) < T, 'between two arrivals the silence never reaches the timeout: the idle link stays up')


R.add('L12.3', l123, [{}], desc='idle link: keep-alive + tick + jitter < timeout => never timed out',
      expect=['between two arrivals the silence never reaches the timeout: the idle link stays up'])


# ------------------------------------------------------------------ L12.4 client DROPPED / connect timeout
def l124a():
    now = symreal('now', lo=0, hi=TMAX)
    clock = proto.clock_at(now)
    u, c = connected_client(clock)
    # the link is open: in use (CONNECTED) or being closed (DISCONNECTING: the peer sent DISCONNECT / a disconnect was
    # requested and the exchange has not finished) - a silent peer is detected in both
    st0 = [Status.CONNECTED, Status.DISCONNECTING][choose(2, 'status_before')]
    c.status = st0
    c.last_recv_time = symreal('last_recv', lo=-1, hi=now)
    c.last_latency_update_time = 0
    c.update()
    silent = And(c.last_recv_time > 0, now > c.last_recv_time + 5)
    check(Iff(silent, c.status == Status.DROPPED), 'client reports DROPPED exactly when the server has been silent for more than 5 s')
    check(Or(c.status == Status.DROPPED, c.status == st0), 'otherwise it stays CONNECTED')


def l124b(with_callback):
    """connect() at an arbitrary instant, nothing ever arrives, the application keeps ticking: two ticks at arbitrary
    later instants.  Until the configured timeout has elapsed the attempt is CONNECTING (whatever the 5 s rule for
    established links says), afterwards DISCONNECTED - and it stays that way - with the callback fired once with False"""
    t_c = symreal('connect_at', lo=1, hi=TMAX)
    clock = proto.clock_at(t_c)
    cb = Rec('connect') if with_callback else None
    u = client_mod.UdpClient()
    timeout = symreal('connect_timeout', lo=0.01, hi=1000)
    if bool(symbool('set_before_connect')):
        u.setConnectionTimeout(timeout)
        u.connect(('srv', 9), cb)
    else:
        u.connect(('srv', 9), cb)
        u.setConnectionTimeout(timeout)
    c = u.conn
    c.clock = clock
    check(c.status == Status.CONNECTING, 'connect() starts CONNECTING')
    elapsed = 0
    was_expired = False
    for k in (1, 2):
        dt = symreal('dt%d' % k, lo=0, hi=100000)
        clock.advance(dt)
        elapsed = elapsed + dt
        try:
            u.update()
        except Exception as ex:
            core.fail('UdpClient.update raised during an unanswered connect attempt', error=type(ex).__name__)
        expired = bool(Or(was_expired, elapsed > timeout))
        if expired:
            check(c.status == Status.DISCONNECTED, 'an unanswered connect attempt ends DISCONNECTED after the configured timeout', tick=k)
            if with_callback:
                check(cb.calls == [False], 'the connect callback is called once with False on timeout', tick=k)
        else:
            check(c.status == Status.CONNECTING, 'until the configured timeout has elapsed the attempt stays CONNECTING', tick=k)
            if with_callback:
                check(cb.calls == [], 'no callback before the timeout', tick=k)
        was_expired = expired


R.add('L12.4a', l124a, [{}], desc='client DROPPED threshold', expect=['client reports DROPPED exactly when the server has been silent for more than 5 s'])
R.add('L12.4b', l124b, [dict(with_callback=True), dict(with_callback=False)],
      desc='unanswered connect followed by two ticks at arbitrary later instants: CONNECTING until the configured timeout, then '
           'DISCONNECTED for good, callback (if any) once with False',
      expect=['an unanswered connect attempt ends DISCONNECTED after the configured timeout',
              'until the configured timeout has elapsed the attempt stays CONNECTING'],
      bounds='connect instant, timeout (0.01..1000 s) and both tick instants symbolic reals; two ticks')


# ------------------------------------------------------------------ L12.5 setters
def l125(order):
    now = symreal('now', lo=10, hi=TMAX)
    clock = proto.clock_at(now)
    ka = symreal('keep_alive', lo=0.02, hi=3600)
    mt = symreal('message_timeout', lo=0.01, hi=3600)
    u = client_mod.UdpClient()

    def setters():
        try:
            u.setKeepAliveInterval(ka)
            u.setMessageTimeout(mt)
            u.setConnectionTimeout(7.5)
        except Exception as ex:
            core.fail('a client setter raised', error=type(ex).__name__ + ': ' + str(ex)[:60], order=order)
    if order in ('before', 'both'):
        setters()
    u.connect(('srv', 9), None)
    if order in ('after', 'both'):
        setters()
    c = u.conn
    c.clock = clock
    c.outgoing_messages = []
    c.status = Status.CONNECTED
    c.session_key_bytes = KEY
    c.time_client_hello_sent = 0
    c.last_recv_time = now
    # effect of the keep-alive setting: observed at the threshold of the real emission path
    T0 = symreal('last_send', lo=0, hi=now)
    c.last_send_time = T0
    c.last_send_keep_alive_time = T0
    # effect of the message timeout: observed on a pending datagram
    sent = symreal('pending_sent', lo=0, hi=now)
    s = SeqNum(77)
    rec = Rec('pending')
    c.pending_acks[s] = sent
    c.pending_callbacks[s] = [rec]
    u.update()
    emitted = len(u.sock.sent) >= 1
    if bool((now - T0) > 0.02):            # past the send tick either way
        check(Iff(emitted, (now - T0) > ka), 'the keep-alive interval that was set is the one that is used')
        check(Or(Not((now - sent) > mt), rec.calls == [False]), 'the message timeout that was set is the one that is used (old datagram timed out)')
        check(Or((now - sent) >= mt, rec.calls == []), 'the message timeout that was set is the one that is used (young datagram kept)')
    check(c.temp_connection_timeout == 7.5, 'the connection timeout that was set is the one the connection holds')


R.add('L12.5', l125, [dict(order=o) for o in ('before', 'after', 'both')],
      desc='UdpClient setters before / after / around connect(): never raise, values used by the real update path',
      expect=['the keep-alive interval that was set is the one that is used',
              'the message timeout that was set is the one that is used (old datagram timed out)'])


def l126():
    """ServerContext setters are plain stores read by the server loop (their use in the loop is C10);
    here: they never raise and hold the value"""
    ctxt = proto.mk_ctxt()
    v = [symreal('v%d' % i, lo=0.001, hi=1000) for i in range(5)]
    try:
        ctxt.setKeepAliveInterval(v[0])
        ctxt.setConnectionTimeout(v[1])
        ctxt.setTempConnectionTimeout(v[2])
        ctxt.setMessageTimeout(v[3])
        ctxt.setInterval(v[4])
    except Exception as ex:
        core.fail('a ServerContext setter raised', error=type(ex).__name__)
    check(And(ctxt.keep_alive_interval == v[0], ctxt.connection_timeout == v[1], ctxt.temp_connection_timeout == v[2],
              ctxt.outgoing_timeout == v[3], ctxt.interval == v[4]), 'ServerContext settings are stored as given')


R.add('L12.6', l126, [{}], desc='ServerContext setters', expect=['ServerContext settings are stored as given'])

# ------------------------------------------------------------------ L12.7 server sweep with configured timeouts (real loop)
def l127():
    """settings made on the ServerContext before the server starts are the ones the real loop uses.  Two clients connect;
    from tick 5 on the first one is silent while the second keeps answering every tick; the clock advances by an arbitrary
    step per tick (each step shorter than the timeout, so the talking client is never silent that long).  The silent client
    is dropped (disconnect event, removed from the pool) at the first tick at which its silence has reached the configured
    connection timeout and not before; the talking client stays.  New connections get the configured keep-alive interval
    and message timeout."""
    from . import loop
    T = symreal('connection_timeout', lo=0.5, hi=50)
    ka = symreal('keep_alive', lo=0.05, hi=0.4)
    mt = symreal('message_timeout', lo=0.5, hi=50)
    state = {'silence': {}, 'pool': {}}

    def script(world, tick):
        if tick == 1:
            for key, addr in (('b', ('10.0.0.2', 5002)), ('o', ('10.0.0.3', 5003))):
                state[key] = loop.Peer(world, addr)
                state[key].c._sendClientHello()
                world.inject(state[key].emit(), addr)
            return
        b, o = state['b'], state['o']
        if tick <= 4:
            for p_ in (b, o):
                p_.absorb()
                raw = p_.emit()
                if raw is not None:
                    world.inject(raw, p_.addr)
            return
        if tick == 5:
            state['sb'] = world.ctxt.connections.get(b.addr)
            state['so'] = world.ctxt.connections.get(o.addr)
        # what the previous sweep left behind
        state['pool'][tick] = (b.addr in world.ctxt.connections, o.addr in world.ctxt.connections)
        if tick <= 7 and state.get('sb') is not None and state.get('so') is not None:
            dt = symreal('dt%d' % tick, lo=0, hi=60)
            assume(dt + 0.05 < T)                  # the talking client is heard again before its own silence reaches T
            world.clock.advance(dt)
            state['silence'][tick] = world.clock.now - state['sb'].last_recv_time
            o.absorb()
            o.c.send(b'still here', RetryMode.NONE, None)
            raw = o.emit()
            if raw is not None:
                world.inject(raw, o.addr)

    world = loop.World(9, script)
    world.ctxt.setConnectionTimeout(T)
    world.ctxt.setKeepAliveInterval(ka)
    world.ctxt.setMessageTimeout(mt)
    world.run()
    check(world.escaped is None, 'loop ran')
    check(state.get('sb') is not None and state.get('so') is not None, 'both clients connected before one goes silent')
    sb, so = state['sb'], state['so']
    check(And(sb.send_keep_alive_interval == ka, sb.outgoing_timeout == mt), 'new connections use the configured keep-alive interval and message timeout')
    gone = False
    for tick in (5, 6, 7):
        if tick not in state['silence'] or tick + 1 not in state['pool']:
            continue
        expired = bool(Or(gone, state['silence'][tick] >= T))
        in_pool, other_in_pool = state['pool'][tick + 1]
        check(in_pool == (not expired), 'a silent client is dropped exactly when its silence has reached the configured connection timeout', tick=tick)
        check(other_in_pool, 'a client that keeps talking stays connected while another client is dropped', tick=tick)
        gone = expired
    ev = world.handler.events
    sd = [i for i, e in enumerate(ev) if e[0] == 'shutdown']
    check(len([e for e in ev if e[0] == 'disconnect' and e[1] is sb]) == 1, 'exactly one disconnect event for the silent client')
    od = [i for i, e in enumerate(ev) if e[0] == 'disconnect' and e[1] is so]
    check(len(od) == 1, 'the talking client is disconnected once (at shutdown)')


R.add('L12.7', l127, [{}], desc='real server loop: configured connection timeout / keep-alive / message timeout are the ones used',
      expect=['a silent client is dropped exactly when its silence has reached the configured connection timeout',
              'a client that keeps talking stays connected while another client is dropped',
              'new connections use the configured keep-alive interval and message timeout'])


# ------------------------------------------------------------------ L12.8 idle link after a real handshake
def l128(n):
    """both endpoints come out of the real handshake (no field is set by hand), then the link idles: n ticks at
    arbitrary spacing up to one second, the network delivers whatever is emitted.  Nobody times out, nobody is
    DROPPED / DISCONNECTED, the connect callback stays at its single True, and each side emits whenever more than its
    keep-alive interval has passed since its last datagram."""
    clock = proto.clock_at(symreal('t0', lo=10, hi=TMAX))
    cl, sv, ctxt, handler, cb = proto.honest_handshake(clock)
    check(And(cl.status == Status.CONNECTED, sv.status == Status.CONNECTED), 'both sides connected after the handshake')
    check(cb.calls == [True], 'connect callback: once, True')
    for k in range(n):
        dt = symreal('dt%d' % k, lo=0.02, hi=1)
        clock.advance(dt)
        now = clock.now
        # client tick (what UdpClient.update does around the connection object)
        cl.update()
        due_c = (now - cl.last_send_time) > cl.send_keep_alive_interval
        pkt = cl._build_packet() if bool((now - cl.last_send_time) > cl.send_interval) else None
        if bool(due_c):
            check(pkt is not None, 'the client emits once its keep-alive interval has passed', tick=k)
        if pkt is not None:
            raw = cl._encode_packet(pkt)
            sv._recv_datagram(PacketHeader.from_bytes(True, raw), raw)
        cl._check_timeout(now)
        # server tick
        due_s = (now - sv.last_send_time) > sv.send_keep_alive_interval
        out = sv.update()
        if bool(due_s):
            check(out is not None, 'the server side emits once its keep-alive interval has passed', tick=k)
        if out is not None:
            spkt, key, addr = out
            raw = spkt.to_bytes(key)
            cl._recv_datagram(PacketHeader.from_bytes(False, raw), raw)
        check(cl.status == Status.CONNECTED, 'the idle client stays CONNECTED', tick=k)
        check(sv.status == Status.CONNECTED, 'the idle server-side connection stays CONNECTED', tick=k)
        check(Not(sv.timedout(ctxt.connection_timeout)), 'the server does not time the idle client out', tick=k)
        check(cb.calls == [True], 'the connect callback is never called again', tick=k)
        check([e[0] for e in handler.events] == ['connect'], 'no further handler events on an idle link', tick=k)


R.add('L12.8', l128, lambda tier: [dict(n=(3 if tier == 'quick' else 6))],
      desc='idle link after the real handshake: n ticks up to 1 s apart, everything delivered: both sides stay CONNECTED, emit per '
           'keep-alive interval, callback stays [True]',
      expect=['the idle client stays CONNECTED', 'the client emits once its keep-alive interval has passed',
              'the server side emits once its keep-alive interval has passed'],
      bounds='3 (thorough 6) ticks, each 0.02..1 s after the previous one; default keep-alive / timeout settings')

import sys as _sys  # noqa: E402
from sx.models import stubs_m  # noqa: E402
# replay drives the real UdpClient: its socket and select are the recording stand-ins (no network in the sandbox)
NETPATCH = [('mpgameserver.client', 'socket', stubs_m.socket_module), ('mpgameserver.client', 'select', stubs_m.select_module),
            ('mpgameserver.server', 'Condition', stubs_m.Condition), ('mpgameserver.twisted', 'reactor', stubs_m.reactor)]
for _l in R.lemmas.values():
    if _l.replay is None:
        from . import loop as _loop
        _l.replay = generic_replay(_l.func, [proto, _loop, _sys.modules[__name__]], patches=NETPATCH)

for _lid in ['L12.4b', 'L12.5', 'L12.6', 'L12.7', 'L12.8']:
    if _lid in R.lemmas:
        R.lemmas[_lid].api = True

get_harness = R.get_harness
