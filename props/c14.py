"""C14 - deserializing hostile bytes is safe and bounded.

L14.2 bounded full decode of n symbolic bytes through the real deserialize_value with the real
registry (no stubs): every path ends in a return or an ordinary Exception, within a work bound
linear in n, and the result is built from supported / registered types only.
L14.1 progress lemma per container reader from an arbitrary stream position (nested reads real,
stream content opaque): the loop count is bounded by the bytes consumed.
L14.3 the three handshake entry points on arbitrary message bytes.
"""
import z3

import sx
from sx import core, rope, text
from sx.core import check, assume, choose, symbool, symint, SxBool, SxInt, SxReal, E, And, Or, Not
from sx.floats import FloatTok
from sx.values import SxDict, SxSet
from .common import Registry, real

ser = sx.load('serializable')
conn = sx.load('connection')
Serializable, SerializableEnum = ser.Serializable, ser.SerializableEnum
BytesIO = ser.BytesIO
R = Registry('C14')


def supported(v, depth=0):
    """value composed only of supported and registered types"""
    if v is None or isinstance(v, (bool, SxBool, int, SxInt, float, FloatTok, SxReal, str, bytes)) or text.istext(v) or rope.isrope(v):
        return True
    if isinstance(v, (list, tuple)):
        return all(supported(x, depth + 1) for x in v)
    if isinstance(v, SxSet):
        return all(supported(x, depth + 1) for x in list(v))
    if isinstance(v, SxDict):
        return all(supported(k, depth + 1) and supported(x, depth + 1) for k, x in v.items())
    if isinstance(v, (Serializable, SerializableEnum)):
        return type(v) in list(ser.SerializableType.registry.values())
    return False


def l142(n):
    data = rope.symbytes('b', n) if n else b''
    st = BytesIO(data)
    e = E()
    t0 = e.ticks
    e.step_limit = e.ticks + 3000
    try:
        v = Serializable.loadb(st)
        outcome = 'value'
    except Exception as ex:
        outcome = 'exception'
    except core.StepLimit:
        e.step_limit = 10 ** 9
        core.fail('decoding does not terminate within the step bound (hang)')
    except core.SxControl:
        raise
    except BaseException as ex:     # KeyboardInterrupt, SystemExit, GeneratorExit ...
        core.fail('decoding raised a non-ordinary exception', error=type(ex).__name__)
    work = e.ticks - t0
    check(work <= 16 * n + 24, 'decode work is linear in the input size', work=work, n=n)
    check(st.reads <= 4 * n + 4, 'number of stream reads is linear in the input size')
    if outcome == 'value':
        check(supported(v), 'result is composed of supported and registered types only')
        check(And(st.tell() >= 2, st.tell() <= n), 'decoder stays inside the input')
    else:
        check(True, 'malformed input raises an ordinary exception')


def replay_l142(cfg, m):
    import io
    import sys
    s = real('mpgameserver.serializable')
    n = cfg['n']
    data = bytes(m.get('b[%d]' % i, 0) for i in range(n))
    st = io.BytesIO(data)
    calls = [0]

    def tracer(frame, event, arg):
        if event == 'call':
            calls[0] += 1
        return None
    import signal

    class Hang(BaseException):
        pass

    def onalarm(*a):
        raise Hang()
    old = signal.signal(signal.SIGALRM, onalarm)
    signal.alarm(5)
    sys.setprofile(tracer)
    try:
        try:
            v = s.Serializable.loadb(st)
        except Exception:
            v = None
        except Hang:
            return True, 'decoding %s did not return within 5 s' % data.hex()
        except BaseException as ex:
            return True, 'raised %r' % (ex,)
    finally:
        sys.setprofile(None)
        signal.alarm(0)
        signal.signal(signal.SIGALRM, old)
    return calls[0] > 40 * n + 80, 'python calls=%d for %d bytes %s' % (calls[0], n, data.hex())


R.add('L14.2', l142, lambda tier: [dict(n=n) for n in ((0, 1, 2, 3, 4) if tier == 'quick' else range(0, 8))],
      replay=replay_l142, desc='full decode of n symbolic bytes with the real registry',
      expect=['decode work is linear in the input size', 'result is composed of supported and registered types only',
              'malformed input raises an ordinary exception'],
      bounds='n <= 4 (thorough 7) fully symbolic bytes', step_limit=20000)


# ------------------------------------------------------------------ L14.1 progress lemma (arbitrary stream)
CONTAINERS = {'seq': ser.SerializableBaseTypes.seq_t, 'map': ser.SerializableBaseTypes.map_t,
              'set': ser.SerializableBaseTypes.set_t, 'string': ser.SerializableBaseTypes.string_t,
              'bytes': ser.SerializableBaseTypes.bytes_t}


def l141(kind, maxit, lowlimit=False):
    """reader `kind` on: [length encoding (arbitrary int of any width)] ++ opaque rest of symbolic
    length.  Elements are read by the real deserialize_value; to keep the unrolling finite every
    element is a null (2 bytes) or the stream ends: the claim is about the *loop*, whose trip count
    must be bounded by the bytes actually present, not by the declared length."""
    declared = symint('declared_len', -2 ** 40, 2 ** 40)
    present = symint('elements_present', 0, maxit)
    saved_limits = (ser.MAX_ARRAY_LENGTH, ser.MAX_BYTES_LENGTH)
    if lowlimit:
        # the limits are module constants read at run time: lowered so that a declared length can exceed the limit while
        # that many elements / bytes are really present (otherwise an over-limit length always runs into the end of input)
        ser.MAX_ARRAY_LENGTH, ser.MAX_BYTES_LENGTH = maxit - 1, 4
    try:
        _l141_body(kind, maxit, declared, present)
    finally:
        ser.MAX_ARRAY_LENGTH, ser.MAX_BYTES_LENGTH = saved_limits


def _l141_body(kind, maxit, declared, present):
    lenenc = BytesIO()
    try:
        ser.serialize_int(lenenc, declared)
    except Exception:
        raise core.Abort()
    body = b''
    if kind in ('seq', 'set'):
        body = b'\x00\x0f' * core.concrete(present)
    elif kind == 'map':
        body = b'\x00\x0f\x00\x0f' * core.concrete(present)
    else:
        body, bl = rope.blob('content', 0, None)
    data = lenenc.getvalue() + body
    st = BytesIO(data)
    e = E()
    t0 = e.ticks
    fn = ser.deserialize_types[CONTAINERS[kind]]
    e.step_limit = e.ticks + 2000
    try:
        v = fn(st)
        ok = True
    except Exception as ex:
        ok = False
    except core.StepLimit:
        e.step_limit = 10 ** 9
        core.fail('the reader does not terminate within the step bound (hang)', kind=kind)
    work = e.ticks - t0
    total = rope.sx_len(data)
    if kind in ('seq', 'set', 'map'):
        check(work <= 8 * core.concrete(present) + 24, 'loop count bounded by the elements present, not the declared length',
              work=work, kind=kind)
        check(Or(Not(ok), declared <= ser.MAX_ARRAY_LENGTH), 'declared length above the limit is refused')
        if ok:
            check(declared <= present, 'success only if the declared elements are present')
    else:
        check(work <= 24, 'constant work around one read')
        check(Or(Not(ok), declared <= ser.MAX_BYTES_LENGTH), 'declared length above the limit is refused')
        if ok and not isinstance(v, (str, bytes)):
            got = rope.sx_len(v) if rope.isrope(v) else text.sx_len(v)
            if rope.isrope(v):
                check(got <= rope.sx_len(body), 'returned bytes never exceed the bytes present')
    check(st.tell() <= total, 'position stays inside the stream')
    if ok:
        # progress: the measure of the induction over the remaining bytes.  A reader that can leave the position before
        # the end of its own length prefix lets an enclosing container decode the same bytes again and again
        check(st.tell() >= rope.sx_len(lenenc.getvalue()), 'a successful read moves the position forward, past its own length prefix')


def replay_l141(cfg, m):
    import io
    import sys
    s = real('mpgameserver.serializable')
    kind = cfg['kind']
    st0 = io.BytesIO()
    try:
        s.serialize_int(st0, m.get('declared_len', 0))
    except Exception:
        return False, 'length not encodable'
    present = m.get('elements_present', 0)
    body = {'seq': b'\x00\x0f' * present, 'set': b'\x00\x0f' * present, 'map': b'\x00\x0f\x00\x0f' * present}.get(kind, bytes(min(m.get('content_len', 0), 1 << 21)))
    st = io.BytesIO(st0.getvalue() + body)
    calls = [0]

    class Hang(BaseException):
        pass

    def tracer(frame, event, arg):
        # Python and C calls both count: a loop around stream.read()/len() makes no Python-level call
        if event in ('call', 'c_call'):
            calls[0] += 1
            if calls[0] > 200000:
                raise Hang()
    hung = False
    ok = False
    saved_limits = (s.MAX_ARRAY_LENGTH, s.MAX_BYTES_LENGTH)
    if cfg.get('lowlimit'):
        s.MAX_ARRAY_LENGTH, s.MAX_BYTES_LENGTH = cfg['maxit'] - 1, 4
    limit = s.MAX_ARRAY_LENGTH if kind in ('seq', 'map', 'set') else s.MAX_BYTES_LENGTH
    sys.setprofile(tracer)
    try:
        try:
            s.deserialize_types[{'seq': 16, 'map': 17, 'set': 18, 'string': 13, 'bytes': 14}[kind]](st)
            ok = True
        except Exception:
            pass
        except Hang:
            hung = True
    finally:
        sys.setprofile(None)
        s.MAX_ARRAY_LENGTH, s.MAX_BYTES_LENGTH = saved_limits
    declared = m.get('declared_len', 0)
    over = ok and declared > limit
    pos = st.tell()
    badpos = pos > len(st.getvalue()) or (ok and pos < len(st0.getvalue()))
    return hung or over or badpos or calls[0] > 60 * present + 200, 'calls=%s present=%d declared=%d (limit %d) content=%d bytes decoded=%s position=%d of %d (length prefix %d bytes)' % (
        '>200000 (does not terminate)' if hung else calls[0], present, declared, limit, m.get('content_len', 0), ok, pos, len(st.getvalue()), len(st0.getvalue()))


R.add('L14.1', l141, lambda tier: [dict(kind=k, maxit=(3 if tier == 'quick' else 6)) for k in CONTAINERS] + [dict(kind=k, maxit=3, lowlimit=True) for k in CONTAINERS],
      replay=replay_l141, desc='container readers: loop count and reads bounded by bytes present, declared lengths capped',
      expect=['loop count bounded by the elements present, not the declared length', 'position stays inside the stream',
              'declared length above the limit is refused', 'a successful read moves the position forward, past its own length prefix'],
      bounds='declared length any 41-bit signed int; <= 3 (thorough 6) elements present; opaque content of any length',
      step_limit=5000)


# ------------------------------------------------------------------ L14.3 handshake entry points
class Ctxt:
    def __init__(self):
        self.server_root_key = conn.crypto.EllipticCurvePrivateKey(conn.crypto.ec.generate_private_key())
        self.temp_connections = {}
        self.connections = {}
        self.token = 0x40000001
        self.connected = []

    def get_token(self):
        return self.token

    def _validateChallengeResponse(self, client, token):
        other = self.temp_connections.get(client.addr, None)
        return bool(other and other.token == token)

    def _onConnect(self, client):
        self.connected.append(client)


def hostile_message(which):
    """message bytes for a handshake entry point: either n fully symbolic bytes, or a well-typed
    frame (right type id) around arbitrary/opaque fields"""
    form = choose(2, 'form')
    if form == 0:
        return rope.symbytes('m', 3)
    tid = {'client_hello': conn.HandshakeClientHelloMessage.type_id, 'server_hello': conn.HandshakeServerHelloMessage.type_id,
           'challenge': conn.HandshakeClientChallengeResponseMessage.type_id}[which]
    st = BytesIO()
    st.write(conn.struct.pack('>H', tid))
    nf = choose(4, 'nfields')
    for i in range(nf):
        fk = choose(3, 'field%d_kind' % i)
        if fk == 0:
            ser.serialize_value(st, rope.blob('f%d' % i, 0, 3000)[0])
        elif fk == 1:
            ser.serialize_value(st, symint('f%d_int' % i, -2 ** 31, 2 ** 31 - 1))
        else:
            ser.serialize_value(st, None)
    return st.getvalue()


def l143(which):
    ctxt = Ctxt()
    if which == 'server_hello':
        c = conn.ClientServerConnection(('srv', 1))
        c.status = conn.ConnectionStatus.CONNECTING
        c.server_public_key = conn.crypto.EllipticCurvePrivateKey(conn.crypto.ec.generate_private_key()).getPublicKey()
        fn = c._recvServerHello
    else:
        c = conn.ServerClientConnection(ctxt, ('cli', 1))
        fn = c._recvClientHello if which == 'client_hello' else c._recvChallengeResponse
        if which == 'challenge':
            ctxt.temp_connections[c.addr] = c
            c.token = 0x40000001
            c.session_key_bytes = b'K' * 16
    msg = hostile_message(which)
    e = E()
    t0 = e.ticks
    e.step_limit = e.ticks + 3000
    try:
        fn(msg)
        outcome = 'ok'
    except Exception as ex:
        outcome = type(ex).__name__
    except core.StepLimit:
        e.step_limit = 10 ** 9
        core.fail('the handshake entry point does not terminate within the step bound (hang)', which=which)
    except core.SxControl:
        raise
    except BaseException as ex:
        core.fail('handshake entry point raised a non-ordinary exception', error=type(ex).__name__)
    work = e.ticks - t0
    check(work <= 400, 'handshake decode work is bounded', work=work)
    if which == 'server_hello' and outcome != 'ok':
        check(c.session_key_bytes is None, 'a rejected server hello leaves the client without a key')
        check(c.status != conn.ConnectionStatus.CONNECTED, 'a rejected server hello does not connect')
    check(True, 'entry point returns or raises an ordinary exception')


def replay_l143(cfg, m):
    """concrete: rebuild the hostile message of the model (big integer fields pushed to the int32 maximum, so
    that a loop that follows a declared count shows as a hang rather than as a short delay) and run the real
    entry point under an alarm"""
    import io
    import os
    import signal
    c = real('mpgameserver.connection')
    s = real('mpgameserver.serializable')
    which = cfg['which']

    def ch(p, default=0):
        for k, v in m.items():
            if k.startswith(p + '#'):
                return v
        return default
    if ch('form') == 0:
        msg = bytes(m.get('m[%d]' % i, 0) for i in range(3))
    else:
        st = io.BytesIO()
        tid = {'client_hello': c.HandshakeClientHelloMessage.type_id, 'server_hello': c.HandshakeServerHelloMessage.type_id,
               'challenge': c.HandshakeClientChallengeResponseMessage.type_id}[which]
        st.write(c.struct.pack('>H', tid))
        for i in range(ch('nfields')):
            fk = ch('field%d_kind' % i)
            if fk == 0:
                s.serialize_value(st, os.urandom(min(3000, m.get('f%d_len' % i, 0))))
            elif fk == 1:
                v = m.get('f%d_int' % i, 0)
                s.serialize_value(st, 2 ** 31 - 1 if v >= 1000 else v)
            else:
                s.serialize_value(st, None)
        msg = st.getvalue()
    ctxt = real('mpgameserver.context').ServerContext(real('mpgameserver.handler').EventHandler())
    if which == 'server_hello':
        cn = c.ClientServerConnection(('srv', 9))
        cn.server_public_key = real('mpgameserver.crypto').EllipticCurvePrivateKey.new().getPublicKey()
        fn = cn._recvServerHello
    else:
        cn = c.ServerClientConnection(ctxt, ('cli', 1))
        fn = cn._recvClientHello if which == 'client_hello' else cn._recvChallengeResponse
        if which == 'challenge':
            ctxt.temp_connections[cn.addr] = cn
            cn.token = 0x40000001

    class Hang(BaseException):
        pass

    def onalarm(*a):
        raise Hang()
    old = signal.signal(signal.SIGALRM, onalarm)
    signal.alarm(5)
    try:
        try:
            fn(msg)
        except Exception:
            pass
        except Hang:
            return True, '%s on %d hostile bytes (%s) did not return within 5 s' % (which, len(msg), msg[:24].hex())
    finally:
        signal.alarm(0)
        signal.signal(signal.SIGALRM, old)
    return False, 'returned'


R.add('L14.3', l143, [dict(which=w) for w in ('client_hello', 'server_hello', 'challenge')], replay=replay_l143,
      desc='_recvClientHello/_recvServerHello/_recvChallengeResponse on arbitrary message bytes',
      expect=['entry point returns or raises an ordinary exception', 'handshake decode work is bounded'],
      bounds='3 fully symbolic bytes | right type id + <= 3 arbitrary fields (opaque bytes / int / None)',
      step_limit=5000)

for _lid in ['L14.1', 'L14.2', 'L14.3']:
    if _lid in R.lemmas:
        R.lemmas[_lid].api = True

get_harness = R.get_harness
