"""Single-threaded driver for the real UdpServerThread.run() (C10, C11).

The loop is the unmodified method.  It is driven from the inside: ctxt._active is a harness-owned
flag, handler.update() (called once per tick by the loop) is the hook in which the harness advances
the clock, injects the next datagrams through the real TwistedServer.datagramReceived entry point and
requests shutdown; Condition.wait() calls the same hook; server.sleep is a no-op.
"""
import sx
from sx import core, rope
from sx.core import symint, symbool, symreal, check, assume, choose, SxInt, SxBool, E, And, Or, Not, Iff
from sx.models import env_m, stubs_m, crypto_m
from . import proto
from .proto import conn, ctx_mod, Packet, PacketHeader, PacketType, SeqNum, RetryMode, Status

server_mod = sx.load('server')
twisted_mod = sx.load('twisted')
crypto = conn.crypto


def new_ctxt(handler, root):
    """ServerContext whose _active flag is owned by the harness.  The class is built at call time so that
    a concrete replay derives it from the real package's ServerContext.  get_token hands out distinct
    values here: the generator itself is decided for every RNG outcome in C10 L10.3."""
    class Ctxt(ctx_mod.ServerContext):
        _alive = True
        _next = 0x40000001

        @property
        def _active(self):
            return self._alive

        @_active.setter
        def _active(self, v):
            self._alive = v

        def get_token(self):
            self._next += 1
            return self._next
    return Ctxt(handler, root)


class HandlerBoom(Exception):
    pass


class Handler:
    """recording EventHandler; raises in the events named by `raise_in`"""

    def __init__(self, world):
        self.world = world
        self.events = []
        self.raise_in = set()

    def _ev(self, *e):
        self.events.append(e)
        if e[0] in self.raise_in:
            raise HandlerBoom(e[0])

    def starting(self):
        self._ev('starting')

    def shutdown(self):
        self._ev('shutdown')

    def connect(self, client):
        self._ev('connect', client)

    def disconnect(self, client):
        self._ev('disconnect', client)

    def handle_message(self, client, seqnum, msg):
        self._ev('message', client, seqnum, msg)

    def update(self, dt):
        self.world.tick_hook()
        if 'update' in self.raise_in:
            raise HandlerBoom('update')


class Transport:
    def __init__(self):
        self.out = []

    def write(self, datagram, addr):
        self.out.append((datagram, addr))


class Peer:
    """an honest client endpoint (real ClientServerConnection) behind an address"""

    def __init__(self, world, addr):
        self.world = world
        self.addr = addr
        self.new_conn()
        self.sent_payloads = []
        self.last_datagram = None

    def new_conn(self):
        self.c = conn.ClientServerConnection(('srv', 9))
        self.c.clock = self.world.clock
        self.c.setServerPublicKey(self.world.root.getPublicKey())

    def emit(self):
        pkt = self.c._build_packet_impl(self.world.clock(), False, 0.1)
        if pkt is None:
            return None
        raw = self.c._encode_packet(pkt)
        self.last_datagram = raw
        return raw

    def absorb(self):
        """take the server's datagrams addressed to us"""
        out = self.world.transport.out
        mine = [d for d, a in out if a == self.addr]
        self.world.transport.out = [(d, a) for d, a in out if a != self.addr]
        for d in mine:
            try:
                hdr = PacketHeader.from_bytes(False, d)
                self.c._recv_datagram(hdr, d)
            except Exception:
                pass
        return len(mine)


class World:
    def __init__(self, ticks, script):
        self.clock = proto.clock_at(1000.0)
        self.root = proto.new_key('root')
        self.handler = Handler(self)
        self.ctxt = new_ctxt(self.handler, self.root)
        self.ts = twisted_mod.TwistedServer(self.ctxt, ('0.0.0.0', 1), install_signals=False)
        self.transport = Transport()
        self.ts.transport = self.transport
        self.thread = self.ts.thread
        self.tick = 0
        self.ticks = ticks
        self.script = script            # callable(world, tick) run inside every tick hook
        self.tick_log = []              # (tick, snapshot of pools) at every hook
        self.escaped = None
        self.bytes_from = {}
        stubs_m.Condition.on_wait = lambda cv: self.tick_hook(waiting=True)
        server_mod.sleep = lambda *a, **k: None

    def inject(self, raw, addr):
        self.bytes_from[addr] = self.bytes_from.get(addr, 0) + rope.sx_len(raw)
        self.ts.datagramReceived(raw, addr)

    def tick_hook(self, waiting=False):
        self.tick += 1
        self.tick_log.append((self.tick, set(self.ctxt.connections.keys()), set(self.ctxt.temp_connections.keys())))
        if self.tick > self.ticks:
            self.ctxt._alive = False
            return
        self.clock.advance(0.02)
        self.script(self, self.tick)

    def run(self):
        try:
            self.thread.run()
        except HandlerBoom as ex:
            self.escaped = ex
        except Exception as ex:
            self.escaped = ex
        finally:
            stubs_m.Condition.on_wait = None


def lifecycle_ok(events):
    """per-client automaton over the handler event log -> list of violations"""
    bad = []
    state = {}
    if events and events[0][0] != 'starting':
        bad.append('first event is not starting')
    if events and events[-1][0] != 'shutdown':
        bad.append('last event is not shutdown')
    for e in events:
        kind = e[0]
        if kind in ('starting', 'shutdown'):
            continue
        c = e[1]
        st = state.get(id(c), 'new')
        if kind == 'connect':
            if st != 'new':
                bad.append('connect twice / after disconnect')
            state[id(c)] = 'connected'
        elif kind == 'message':
            if st != 'connected':
                bad.append('message for a client that is not connected')
        elif kind == 'disconnect':
            if st != 'connected':
                bad.append('disconnect without connect / twice')
            state[id(c)] = 'disconnected'
    for k, st in state.items():
        if st == 'connected':
            bad.append('client connected but never disconnected (not even at shutdown)')
    return bad
