"""C20 - dispatcher routes by message class; register/unregister are inverses.

The domain is finite: the symbolic execution degenerates to an exhaustive case analysis over
operation sequences (every choice is an engine decision), compared with a 20-line reference map.
"""
import sx
from sx import core
from sx.core import check, choose, symbool
from .common import Registry, real

disp = sx.load('dispatch')
ser = sx.load('serializable')

R = Registry('C20')
EXPLANATION = 'C20 is a finite domain: exhaustive=true for the stated operation alphabet and sequence length.'


def build_world(mod, sermod, server):
    """message classes A,B,C and resources: R1 (class annotations: A,B), R2 (string annotation: C),
    R3 (string annotation: A - conflicts with R1)"""
    ns = {}
    Serializable = sermod.Serializable
    # fresh class names per world would collide in the Serializable registry: reuse cached ones
    cache = build_world.__dict__.setdefault('cache', {})
    key = id(sermod)
    if key not in cache:
        class MsgA(Serializable):
            v: int = 0

        class MsgB(Serializable):
            v: int = 0

        class MsgC(Serializable):
            v: int = 0
        cache[key] = (MsgA, MsgB, MsgC)
    MsgA, MsgB, MsgC = cache[key]
    deco = mod.server_event if server else mod.client_event
    log = []
    if server:
        class R1:
            @deco
            def on_a(self, client, seqnum, msg: MsgA):
                log.append(('R1.on_a', client, seqnum, msg, self))

            @deco
            def on_b(self, client, seqnum, msg: MsgB):
                log.append(('R1.on_b', client, seqnum, msg, self))

        class R2:
            @deco
            def on_c(self, client, seqnum, msg: "MsgC"):
                log.append(('R2.on_c', client, seqnum, msg, self))

        class R3:
            @deco
            def on_a(self, client, seqnum, msg: "MsgA"):
                log.append(('R3.on_a', client, seqnum, msg, self))
    else:
        class R1:
            @deco
            def on_a(self, seqnum, msg: MsgA):
                log.append(('R1.on_a', None, seqnum, msg, self))

            @deco
            def on_b(self, seqnum, msg: MsgB):
                log.append(('R1.on_b', None, seqnum, msg, self))

        class R2:
            @deco
            def on_c(self, seqnum, msg: "MsgC"):
                log.append(('R2.on_c', None, seqnum, msg, self))

        class R3:
            @deco
            def on_a(self, seqnum, msg: "MsgA"):
                log.append(('R3.on_a', None, seqnum, msg, self))
    D = mod.ServerMessageDispatcher if server else mod.ClientMessageDispatcher
    # R1b is a second instance of R1's class: same functions, another owner
    handles = {'R1': {'MsgA': 'R1.on_a', 'MsgB': 'R1.on_b'}, 'R2': {'MsgC': 'R2.on_c'}, 'R3': {'MsgA': 'R3.on_a'},
               'R1b': {'MsgA': 'R1.on_a', 'MsgB': 'R1.on_b'}}
    return D(), {'R1': R1(), 'R2': R2(), 'R3': R3(), 'R1b': R1()}, {'MsgA': MsgA, 'MsgB': MsgB, 'MsgC': MsgC}, handles, log


OPS = ['reg R1', 'reg R2', 'reg R3', 'unreg R1', 'unreg R2', 'unreg R3', 'disp MsgA', 'disp MsgB', 'disp MsgC', 'reg R1b', 'unreg R1b']


def run_ops(mod, sermod, server, ops, chk, dispatch_error):
    d, res, msgs, handles, log = build_world(mod, sermod, server)
    ref = {}          # class name -> (handler label, owning resource)  (the reference model)
    for step, op in enumerate(ops):
        kind, arg = op.split()
        if kind == 'reg':
            conflict = any(c in ref for c in handles[arg])
            try:
                d.register(res[arg])
                raised = False
            except Exception:
                raised = True
            chk(raised == conflict, 'registering a second handler for a class is refused (and only then)', step, op)
            if not conflict:
                ref.update({c: (label, arg) for c, label in handles[arg].items()})
        elif kind == 'unreg':
            try:
                d.unregister(res[arg])
                raised = False
            except Exception:
                raised = True
            chk(not raised, 'unregister(resource) does not raise', step, op)
            for c, label in handles[arg].items():
                if ref.get(c) == (label, arg):          # only what this very resource object registered
                    del ref[c]
        else:
            msg = msgs[arg](v=step)
            client, seq = object(), object()
            n0 = len(log)
            try:
                if server:
                    d.dispatch(client, seq, msg)
                else:
                    d.dispatch(seq, msg)
                err = None
            except dispatch_error:
                err = 'dispatch'
            except Exception as e:
                err = 'other'
            calls = log[n0:]
            if arg in ref:
                chk(err is None, 'dispatch to a registered class does not raise', step, op)
                chk(len(calls) == 1, 'exactly one handler is invoked', step, op)
                if len(calls) == 1:
                    chk(calls[0][0] == ref[arg][0] and calls[0][4] is res[ref[arg][1]],
                        'the handler registered for the class is the one invoked (on the resource object that registered it)', step, op)
                    chk(calls[0][3] is msg and calls[0][2] is seq and (not server or calls[0][1] is client),
                        'arguments are passed through unchanged', step, op)
            else:
                chk(err == 'dispatch', 'unknown class raises DispatchError', step, op)
                chk(len(calls) == 0, 'nothing is called for an unknown class', step, op)


def l201(server, nops):
    ops = []
    for i in range(nops):
        k = choose(len(OPS) + 1, 'op%d' % i)
        if k == len(OPS):
            break
        ops.append(OPS[k])

    def chk(cond, msg, step, op):
        check(cond, msg, step=step, op=op, ops=list(ops))
    run_ops(disp, ser, server, ops, chk, disp.DispatchError)
    check(True, 'sequence explored')


def replay_l201(cfg, m):
    c = real('mpgameserver.dispatch')
    s = real('mpgameserver.serializable')
    idx = sorted(((int(k.split('#')[0][2:]), v) for k, v in m.items() if k.startswith('op')))
    ops = []
    for _, k in idx:
        if k >= len(OPS):
            break
        ops.append(OPS[k])
    fails = []

    def chk(cond, msg, step, op):
        if not cond:
            fails.append('%s at step %d (%s)' % (msg, step, op))
    run_ops(c, s, cfg['server'], ops, chk, c.DispatchError)
    return bool(fails), 'ops=%s: %s' % (ops, fails[:2])


R.add('L20.1', l201, lambda tier: [dict(server=s, nops=(4 if tier == 'quick' else 5)) for s in (True, False)],
      replay=replay_l201,
      desc='every sequence of <= 4 (thorough 5) register/unregister/dispatch operations over 4 resource objects (class and string '
           'annotations, one conflicting class, two instances of one class) and 3 message classes, both dispatchers, against a reference map',
      expect=['sequence explored', 'exactly one handler is invoked', 'unknown class raises DispatchError',
              'registering a second handler for a class is refused (and only then)'],
      bounds='<= 4 (thorough 5) operations from the empty dispatcher; alphabet of 11 operations')


def l202(server):
    """register_function / unregister_function directly, with class objects and names"""
    d, res, msgs, handles, log = build_world(disp, ser, server)
    byname = bool(symbool('by_name'))
    A = msgs['MsgA']
    key = 'MsgA' if byname else A
    f = res['R1'].on_a
    d.register_function(key, f)
    try:
        d.register_function(A if byname else 'MsgA', res['R3'].on_a)
        dup = False
    except Exception:
        dup = True
    check(dup, 'duplicate registration refused whichever way the class is named')
    try:
        d.unregister_function(key)
        ok = True
    except Exception:
        ok = False
    check(ok, 'unregister_function of a registered class does not raise')
    check('MsgA' not in d.registered_events, 'unregister_function removes the handler')
    try:
        d.register_function(key, f)
        again = True
    except Exception:
        again = False
    check(again, 'a class can be registered again after unregister_function')


def replay_l202(cfg, m):
    c = real('mpgameserver.dispatch')
    s = real('mpgameserver.serializable')
    d, res, msgs, handles, log = build_world(c, s, cfg['server'])
    key = 'MsgA' if m.get('by_name') else msgs['MsgA']
    d.register_function(key, res['R1'].on_a)
    try:
        d.unregister_function(key)
    except Exception as e:
        return True, 'unregister_function raised %r' % (e,)
    try:
        d.register_function(key, res['R1'].on_a)
    except Exception as e:
        return True, 're-register raised %r' % (e,)
    return False, 'ok'


R.add('L20.2', l202, [dict(server=True), dict(server=False)], replay=replay_l202,
      desc='register_function/unregister_function are inverses',
      expect=['a class can be registered again after unregister_function'])

# ------------------------------------------------------------------ L20.3 a handler that raises
EXC_TYPES = [KeyError, ValueError, AttributeError, TypeError, IndexError, LookupError, RuntimeError]


def _raising_world(mod, sermod, server, exc_type, by_string):
    cache = _raising_world.__dict__.setdefault('cache', {})
    key = id(sermod)
    if key not in cache:
        class MsgR(sermod.Serializable):
            v: int = 0

        class MsgS(sermod.Serializable):
            v: int = 0
        cache[key] = (MsgR, MsgS)
    MsgR, MsgS = cache[key]
    deco = mod.server_event if server else mod.client_event
    calls = []
    the_exc = exc_type('raised by the handler itself')
    if server:
        if by_string:
            class RR:
                @deco
                def on_r(self, client, seqnum, msg: "MsgR"):
                    calls.append(msg)
                    raise the_exc
        else:
            class RR:
                @deco
                def on_r(self, client, seqnum, msg: MsgR):
                    calls.append(msg)
                    raise the_exc
    else:
        if by_string:
            class RR:
                @deco
                def on_r(self, seqnum, msg: "MsgR"):
                    calls.append(msg)
                    raise the_exc
        else:
            class RR:
                @deco
                def on_r(self, seqnum, msg: MsgR):
                    calls.append(msg)
                    raise the_exc
    D = mod.ServerMessageDispatcher if server else mod.ClientMessageDispatcher
    d = D()
    d.register(RR())
    return d, MsgR, MsgS, calls, the_exc


def _l203_run(mod, sermod, server, exc_idx, by_string):
    d, MsgR, MsgS, calls, the_exc = _raising_world(mod, sermod, server, EXC_TYPES[exc_idx], by_string)
    out = []
    for cls in (MsgR, MsgS):
        n0 = len(calls)
        try:
            if server:
                d.dispatch(object(), 1, cls(v=1))
            else:
                d.dispatch(1, cls(v=1))
            got = None
        except BaseException as e:      # noqa: B036 - the harness inspects what came out
            if not isinstance(e, Exception):
                raise
            got = e
        out.append((got, len(calls) - n0))
    return out, the_exc, mod.DispatchError


def l203(server):
    """the registered handler itself raises (a KeyError from its own table, say): dispatch invoked exactly that handler, and
    what comes out is the handler's exception - DispatchError means 'no handler registered, nothing called' and nothing else"""
    k = choose(len(EXC_TYPES), 'exc_type')
    by_string = bool(symbool('string_annotation'))
    out, the_exc, DE = _l203_run(disp, ser, server, k, by_string)
    (got_r, n_r), (got_s, n_s) = out
    check(n_r == 1, 'the registered handler is invoked exactly once even if it raises')
    check(got_r is the_exc, "a handler's own exception comes out of dispatch unchanged (DispatchError only when nothing was called)")
    check(isinstance(got_s, DE) and n_s == 0, 'unknown class raises DispatchError and nothing is called')


def replay_l203(cfg, m):
    c = real('mpgameserver.dispatch')
    s = real('mpgameserver.serializable')
    out, the_exc, DE = _l203_run(c, s, cfg['server'], m.get('exc_type', 0), bool(m.get('string_annotation', 0)))
    (got_r, n_r), (got_s, n_s) = out
    bad = n_r != 1 or got_r is not the_exc or not isinstance(got_s, DE) or n_s != 0
    return bad, 'handler raising %s: dispatch raised %r after %d call(s); unknown class: %r after %d call(s)' % (
        EXC_TYPES[m.get('exc_type', 0)].__name__, got_r, n_r, got_s, n_s)


R.add('L20.3', l203, [dict(server=True), dict(server=False)], replay=replay_l203,
      desc='a registered handler that raises (7 exception types, class and string annotations): invoked once, its own exception comes out; '
           'DispatchError only for an unregistered class',
      expect=["a handler's own exception comes out of dispatch unchanged (DispatchError only when nothing was called)"],
      bounds='7 exception types x 2 annotation styles x 2 dispatchers (finite, enumerated)')

for _lid in ['L20.1', 'L20.2', 'L20.3']:
    if _lid in R.lemmas:
        R.lemmas[_lid].api = True

get_harness = R.get_harness
