"""C18 - WebSocket frames round-trip per RFC 6455; TCP segmentation is harmless.

L18.1 header codec against an independently written RFC 6455 layout + parse back,
L18.2 masking, L18.3 segmentation through the real WebSocketTemporaryHandler, L18.4 writer.
"""
import z3

import sx
from sx import core, rope
from sx.core import symint, symbool, check, assume, SxInt, SxBool, E, And, Or, Not, Iff, ite, choose
from .common import Registry, real

ws = sx.load('http_server')
Frame, Op = ws.WebSocketFrame, ws.WebSocketOpCode
OPS = [Op.Close, Op.Ping, Op.Pong, Op.Text, Op.Binary]
OPVALS = [0x8, 0x9, 0xA, 0x1, 0x2]

R = Registry('C18')


def sym_frame(plen_hi=2 ** 63 - 1):
    f = Frame()
    f.flags.fin = symint('fin', 0, 1)
    f.flags.rsv1 = symint('rsv1', 0, 1)
    f.flags.rsv2 = symint('rsv2', 0, 1)
    f.flags.rsv3 = symint('rsv3', 0, 1)
    opi = choose(5, 'opcode')
    f.flags.opcode = OPS[opi]
    f.flags.mask = symint('mask', 0, 1)
    f.masking_key = rope.symbytes('key', 4)
    f.payload_length = symint('plen', 0, plen_hi)
    return f, opi


def rfc_header(f, opi):
    """RFC 6455 section 5.2 base framing, written independently of the implementation"""
    b0 = f.flags.fin * 128 + f.flags.rsv1 * 64 + f.flags.rsv2 * 32 + f.flags.rsv3 * 16 + OPVALS[opi]
    L = f.payload_length
    if bool(L <= 125):
        len7, ext = L, b''
    elif bool(L <= 65535):
        len7, ext = 126, rope.field(L, 2)
    else:
        len7, ext = 127, rope.field(L, 8)
    b1 = f.flags.mask * 128 + len7
    out = rope.field(b0, 1) + rope.field(b1, 1) + ext
    if bool(f.flags.mask == 1):
        out = out + f.masking_key
    return out


class Sock:
    """recording socket for the writer side"""

    def __init__(self):
        self.out = b''

    def sendall(self, data):
        self.out = self.out + data


def l181():
    f, opi = sym_frame()
    got = f.serializeHeader() + f.serializeDataHeader()
    want = rfc_header(f, opi)
    check(rope.sx_len(got) == rope.sx_len(want), 'header length as RFC 6455 prescribes')
    check(got == want, 'header bytes as RFC 6455 prescribes')
    # parse back what the library wrote, followed by an opaque payload of the declared length
    payload = rope.mk([('view', rope.Blob('payload', rope._zi(f.payload_length)), z3.IntVal(0), rope._zi(f.payload_length))])
    buf = ws.WebSocketTemporaryRingBuffer(None)
    buf._push(got + payload)
    g = Frame()
    g.readHeader(buf)
    g.readDataHeader(buf)
    check(And(g.flags.fin == f.flags.fin, g.flags.rsv1 == f.flags.rsv1, g.flags.rsv2 == f.flags.rsv2,
              g.flags.rsv3 == f.flags.rsv3, g.flags.mask == f.flags.mask), 'flags parse back')
    check(g.flags.opcode == f.flags.opcode, 'opcode parses back')
    check(g.payload_length == f.payload_length, 'payload length parses back')
    if bool(f.flags.mask == 1):
        check(g.masking_key == f.masking_key, 'masking key parses back')
    check(buf.buf == payload, 'exactly the payload is left in the buffer')


def mk_real_frame(c, m, opi):
    f = c.WebSocketFrame()
    f.flags.fin, f.flags.rsv1, f.flags.rsv2, f.flags.rsv3 = m.get('fin', 0), m.get('rsv1', 0), m.get('rsv2', 0), m.get('rsv3', 0)
    f.flags.opcode = [c.WebSocketOpCode.Close, c.WebSocketOpCode.Ping, c.WebSocketOpCode.Pong, c.WebSocketOpCode.Text,
                      c.WebSocketOpCode.Binary][opi]
    f.flags.mask = m.get('mask', 0)
    f.masking_key = bytes(m.get('key[%d]' % i, 0) for i in range(4))
    f.payload_length = m.get('plen', 0)
    return f


def real_rfc(f, opval):
    import struct
    b0 = f.flags.fin << 7 | f.flags.rsv1 << 6 | f.flags.rsv2 << 5 | f.flags.rsv3 << 4 | opval
    L = f.payload_length
    if L <= 125:
        out = bytes([b0, f.flags.mask << 7 | L])
    elif L <= 65535:
        out = bytes([b0, f.flags.mask << 7 | 126]) + struct.pack('!H', L)
    else:
        out = bytes([b0, f.flags.mask << 7 | 127]) + struct.pack('!Q', L)
    if f.flags.mask:
        out += f.masking_key
    return out


def replay_l181(cfg, m):
    c = real('mpgameserver.http_server')
    opi = [v for k, v in m.items() if k.startswith('opcode')][0]
    f = mk_real_frame(c, m, opi)
    try:
        got = f.serializeHeader() + f.serializeDataHeader()
    except Exception as e:
        return True, 'serialize raised %r' % (e,)
    want = real_rfc(f, OPVALS[opi])
    if got != want:
        return True, 'plen=%d got=%s want=%s' % (f.payload_length, got.hex(), want.hex())
    # parse back (payload replaced by a short stand-in when it is huge: only the header is read)
    n = min(f.payload_length, 70000)
    buf = c.WebSocketTemporaryRingBuffer(None)
    buf._push(got + bytes(n))
    g = c.WebSocketFrame()
    try:
        g.readHeader(buf)
        g.readDataHeader(buf)
    except Exception as e:
        return True, 'parse raised %r' % (e,)
    bad = (g.payload_length != f.payload_length or g.flags.opcode != f.flags.opcode or g.flags.mask != f.flags.mask
           or g.flags.fin != f.flags.fin or g.flags.rsv1 != f.flags.rsv1 or g.flags.rsv2 != f.flags.rsv2 or g.flags.rsv3 != f.flags.rsv3
           or len(buf.buf) != n or (f.flags.mask and g.masking_key != f.masking_key))
    return bad, 'plen=%d parsed=%d left=%d flags sent=%s parsed=%s' % (
        f.payload_length, g.payload_length, len(buf.buf), (f.flags.fin, f.flags.rsv1, f.flags.rsv2, f.flags.rsv3, f.flags.mask),
        (g.flags.fin, g.flags.rsv1, g.flags.rsv2, g.flags.rsv3, g.flags.mask))


def replay_l184(cfg, m):
    """writer and constructors on the real package: writeFrame(f) for the model's frame with a concrete payload of the
    declared length (capped), and the constructors on a message of the model's length"""
    c = real('mpgameserver.http_server')
    opi = [v for k, v in m.items() if k.startswith('opcode')][0]
    f = mk_real_frame(c, m, opi)
    n = min(f.payload_length, 70000)
    f.payload_length = n
    f.payload = bytes(n)

    class S:
        out = b''

        def sendall(self, data):
            self.out += data
    s = S()
    try:
        c.writeFrameFactory(s)(f)
    except Exception as e:
        return True, 'writeFrame raised %r' % (e,)
    if s.out != real_rfc(f, OPVALS[opi]) + f.payload:
        return True, 'writeFrame wrote %s..., expected %s...' % (s.out[:16].hex(), (real_rfc(f, OPVALS[opi]) + f.payload)[:16].hex())
    k = min(int(m.get('msg_len', 0)), 70000)
    bads = []
    for name, op in (('Binary', c.WebSocketOpCode.Binary), ('Ping', c.WebSocketOpCode.Ping), ('Pong', c.WebSocketOpCode.Pong)):
        g = getattr(c.WebSocketFrame, name)(bytes(k))
        if g.payload_length != k or g.flags.fin != 1 or g.flags.opcode != op or g.payload != bytes(k):
            bads.append('%s: fin=%r opcode=%r length=%r' % (name, g.flags.fin, g.flags.opcode, g.payload_length))
    return bool(bads), '; '.join(bads) or 'writer and constructors ok'


R.add('L18.1', l181, [{}], replay=replay_l181,
      desc='serializeHeader+serializeDataHeader == RFC 6455 layout for all flags/opcodes/mask/key/length < 2^63; parse back',
      expect=['header bytes as RFC 6455 prescribes', 'payload length parses back', 'exactly the payload is left in the buffer'],
      bounds='payload_length 0..2^63-1 (symbolic), 5 opcodes, all flag bits, symbolic masking key')


# ------------------------------------------------------------------ L18.2 masking
def l182(n):
    f = Frame()
    f.flags.mask = 1
    f.masking_key = rope.symbytes('key', 4)
    f.payload_length = n
    data = [symint('in[%d]' % i, 0, 255) for i in range(n)]
    buf = ws.WebSocketTemporaryRingBuffer(None)
    buf._push(rope.mk([rope.byte_piece(v) for v in data]) if n else b'')
    f.readData(buf)
    check(len(f.payload) == n, 'payload length kept')
    key = [f.masking_key[i] for i in range(4)]
    for i in range(n):
        want = z3.BV2Int(z3.Int2BV(core.int_term(data[i]), 8) ^ z3.Int2BV(core.int_term(key[i % 4]), 8))
        check(f.payload[i] == SxInt.wrap(want), 'unmasked byte i == in[i] xor key[i mod 4]')
    # masking twice is the identity
    g = Frame()
    g.flags.mask = 1
    g.masking_key = f.masking_key
    g.payload_length = n
    buf2 = ws.WebSocketTemporaryRingBuffer(None)
    buf2._push(rope.SxBytes(f.payload) if n else b'')
    g.readData(buf2)
    for i in range(n):
        check(g.payload[i] == data[i], 'masking twice is the identity')
    # unmasked frames are left alone
    h = Frame()
    h.flags.mask = 0
    h.payload_length = n
    buf3 = ws.WebSocketTemporaryRingBuffer(None)
    buf3._push(rope.mk([rope.byte_piece(v) for v in data]) if n else b'')
    h.readData(buf3)
    for i in range(n):
        check(h.payload[i] == data[i], 'unmasked payload unchanged')


def replay_l182(cfg, m):
    c = real('mpgameserver.http_server')
    n = cfg['n']
    f = c.WebSocketFrame()
    f.flags.mask = 1
    f.masking_key = bytes(m.get('key[%d]' % i, 0) for i in range(4))
    f.payload_length = n
    data = bytes(m.get('in[%d]' % i, 0) for i in range(n))
    buf = c.WebSocketTemporaryRingBuffer(None)
    buf._push(data)
    f.readData(buf)
    want = bytes(data[i] ^ f.masking_key[i % 4] for i in range(n))
    return bytes(f.payload) != want, 'got %s want %s' % (bytes(f.payload).hex(), want.hex())


R.add('L18.2', l182, lambda tier: [dict(n=n) for n in ((0, 1, 5, 8) if tier == 'quick' else range(0, 13))],
      replay=replay_l182, desc='readData unmasks with key[i mod 4]; twice == identity',
      expect=['unmasked byte i == in[i] xor key[i mod 4]', 'masking twice is the identity'],
      bounds='payload <= 8 (thorough 12) symbolic bytes, symbolic key')


# ------------------------------------------------------------------ L18.3 segmentation
class Endpoint:
    def __init__(self):
        self.log = []

    close_at = None

    def callback(self, handler, opcode, payload):
        self.log.append((opcode, payload))
        if self.close_at is not None and len(self.log) - 1 == self.close_at:
            handler.close()


class FakeRequest:
    def __init__(self):
        self.written = b''
        self.chunked = 1

    def write(self, data):
        self.written = self.written + data


SEG_OPS = [Op.Binary, Op.Ping, Op.Pong]
SEG_OPVALS = [0x2, 0x9, 0xA]


def client_frame(i, plen):
    """masked client frame with symbolic opcode, key and payload bytes, encoded per RFC 6455"""
    opi = choose(3, 'f%d_op' % i)
    key = [symint('f%d_key[%d]' % (i, j), 0, 255) for j in range(4)]
    data = [symint('f%d_in[%d]' % (i, j), 0, 255) for j in range(plen)]
    masked = [SxInt.wrap(z3.BV2Int(z3.Int2BV(core.int_term(data[j]), 8) ^ z3.Int2BV(core.int_term(key[j % 4]), 8)))
              for j in range(plen)]
    raw = bytes([0x80 | SEG_OPVALS[opi], 0x80 | plen])
    raw = raw + rope.mk([rope.byte_piece(v) for v in key]) + (rope.mk([rope.byte_piece(v) for v in masked]) if plen else b'')
    return raw, SEG_OPS[opi], data


def l183(k, cuts, maxlen, closes=False):
    ep = Endpoint()
    req = FakeRequest()
    buf = ws.WebSocketTemporaryRingBuffer(req)
    handler = ws.WebSocketTemporaryHandler(('h', 1), {}, {}, buf, ep)
    # the application may close the websocket from inside a callback (server-initiated close): the client has not
    # seen that yet, its frames already in flight are still delivered
    ep.close_at = choose(k + 1, 'server_closes_at') if closes else k      # k = never
    # a second websocket connection of the same process is in the middle of a frame while this one is served:
    # connections do not share anything
    ep2 = Endpoint()
    buf2 = ws.WebSocketTemporaryRingBuffer(FakeRequest())
    handler2 = ws.WebSocketTemporaryHandler(('h', 2), {}, {}, buf2, ep2)
    other_frame = bytes([0x82, 0x83, 1, 2, 3, 4, 0x41 ^ 1, 0x42 ^ 2, 0x43 ^ 3])      # masked binary frame b'ABC'
    handler2(other_frame[:4])
    stream = b''
    want = []
    for i in range(k):
        plen = choose(maxlen + 1, 'f%d_len' % i)
        raw, op, data = client_frame(i, plen)
        stream = stream + raw
        want.append((op, data))
    total = rope.sx_len(stream)
    total = core.concrete(total)
    pos = [0]
    for c in range(cuts):
        p = symint('cut%d' % c, 0, total)
        assume(p >= pos[-1])
        pos.append(p)
    pos.append(total)
    for a, b in zip(pos, pos[1:]):
        if bool(b > a):
            chunk = stream[a:b]
            try:
                handler(chunk)
            except Exception as ex:
                core.fail('handler raised on a segmented stream', error=repr(ex))
    handler2(other_frame[4:])
    check(len(ep2.log) == 1 and ep2.log[0][0] == Op.Binary and bytes(ep2.log[0][1]) == b'ABC' and ep2.close_at is None,
          'the other connection receives exactly its own frame')
    check(len(ep.log) == k, 'every client frame is delivered exactly once')
    for (gop, gpay), (wop, wdata) in zip(ep.log, want):
        check(gop == wop, 'frames delivered in order with their opcode')
        check(len(gpay) == len(wdata), 'payload length preserved')
        for x, y in zip(list(gpay), wdata):
            check(x == y, 'payload delivered unmasked')


def replay_l183(cfg, m):
    c = real('mpgameserver.http_server')
    k = cfg['k']

    def ch(prefix):
        for kk, v in m.items():
            if kk.startswith(prefix + '#'):
                return v
        return 0

    class Ep:
        def __init__(self):
            self.log = []
            self.close_at = ch('server_closes_at') if cfg.get('closes') else k

        def callback(self, handler, opcode, payload):
            self.log.append((opcode, bytes(payload) if not isinstance(payload, str) else payload))
            if len(self.log) - 1 == self.close_at:
                handler.close()

    class Req:
        chunked = 1

        def write(self, data):
            pass
    ep = Ep()
    buf = c.WebSocketTemporaryRingBuffer(Req())
    handler = c.WebSocketTemporaryHandler(('h', 1), {}, {}, buf, ep)
    ep2 = Ep()
    ep2.close_at = -1
    handler2 = c.WebSocketTemporaryHandler(('h', 2), {}, {}, c.WebSocketTemporaryRingBuffer(Req()), ep2)
    other_frame = bytes([0x82, 0x83, 1, 2, 3, 4, 0x41 ^ 1, 0x42 ^ 2, 0x43 ^ 3])
    try:
        handler2(other_frame[:4])
    except Exception as e:
        return True, 'the other connection raised %r' % (e,)
    ops = [c.WebSocketOpCode.Binary, c.WebSocketOpCode.Ping, c.WebSocketOpCode.Pong]
    stream = b''
    want = []
    for i in range(k):
        plen = ch('f%d_len' % i)
        opi = ch('f%d_op' % i)
        key = bytes(m.get('f%d_key[%d]' % (i, j), 0) for j in range(4))
        data = bytes(m.get('f%d_in[%d]' % (i, j), 0) for j in range(plen))
        stream += bytes([0x80 | SEG_OPVALS[opi], 0x80 | plen]) + key + bytes(data[j] ^ key[j % 4] for j in range(plen))
        want.append((ops[opi], data))
    pos = [0] + [m.get('cut%d' % i, 0) for i in range(cfg['cuts'])] + [len(stream)]
    try:
        for a, b in zip(pos, pos[1:]):
            if b > a:
                handler(stream[a:b])
    except Exception as e:
        return True, 'handler raised %r for cuts %s of %d bytes' % (e, pos, len(stream))
    try:
        handler2(other_frame[4:])
    except Exception as e:
        return True, 'the other connection raised %r' % (e,)
    if ep2.log != [(c.WebSocketOpCode.Binary, b'ABC')]:
        return True, 'the other connection received %r instead of its own frame' % (ep2.log,)
    return ep.log != want, 'cuts=%s delivered=%d of %d' % (pos, len(ep.log), k)


R.add('L18.3', l183, lambda tier: ([dict(k=1, cuts=1, maxlen=2), dict(k=2, cuts=1, maxlen=1, closes=True), dict(k=2, cuts=0, maxlen=1, closes=True), dict(k=2, cuts=2, maxlen=1)] if tier == 'quick'
                                   else [dict(k=1, cuts=2, maxlen=3), dict(k=2, cuts=2, maxlen=2), dict(k=3, cuts=1, maxlen=1, closes=True), dict(k=3, cuts=0, maxlen=1, closes=True),
                                         dict(k=2, cuts=2, maxlen=1, closes=True)]),
      replay=replay_l183,
      desc='k masked client frames cut at symbolic positions into chunks fed to the real handler: each frame delivered once, in order, unmasked',
      expect=['every client frame is delivered exactly once', 'payload delivered unmasked'],
      bounds='k<=2 frames, payload <= 2 bytes, <= 2 cuts (thorough: k<=3, payload <= 3, <= 2 cuts)')


# ------------------------------------------------------------------ L18.5 large frames split inside their header
def l185(form):
    """a masked client frame with a 16-bit or 64-bit extended length arrives in pieces: the header (2 + 2|8
    + 4 bytes) and the first payload bytes are cut at symbolic positions; as long as the frame is incomplete
    the handler must neither raise nor deliver anything (the payload itself is never completed here - it is
    opaque and large - so only the header logic is exercised)"""
    ep = Endpoint()
    buf = ws.WebSocketTemporaryRingBuffer(FakeRequest())
    handler = ws.WebSocketTemporaryHandler(('h', 1), {}, {}, buf, ep)
    opi = choose(3, 'op')
    if form == 16:
        L = symint('plen', 126, 65535)
        ext = rope.field(L, 2)
        len7 = 126
    else:
        L = symint('plen', 65536, 2 ** 40)
        ext = rope.field(L, 8)
        len7 = 127
    key = rope.symbytes('key', 4)
    head = bytes([0x80 | SEG_OPVALS[opi], 0x80 | len7]) + ext + key
    npay = choose(4, 'payload_bytes_present')          # far fewer than the declared length
    stream = head + (rope.symbytes('pay', npay) if npay else b'')
    total = core.concrete(rope.sx_len(stream))
    c1 = symint('cut0', 0, total)
    c2 = symint('cut1', 0, total)
    assume(c2 >= c1)
    pos = [0, c1, c2, total]
    for a, b in zip(pos, pos[1:]):
        if bool(b > a):
            try:
                handler(stream[a:b])
            except Exception as ex:
                core.fail('handler raised on a partially received large frame', error=repr(ex), form=form)
    check(len(ep.log) == 0, 'an incomplete frame is not delivered')
    check(buf.buf == stream, 'the bytes of an incomplete frame stay buffered, untouched')


def replay_l185(cfg, m):
    import struct
    c = real('mpgameserver.http_server')

    class Ep:
        log = []

        def callback(self, h, op, p):
            Ep.log.append(op)

    class Req:
        chunked = 1

        def write(self, d):
            pass
    Ep.log = []
    buf = c.WebSocketTemporaryRingBuffer(Req())
    handler = c.WebSocketTemporaryHandler(('h', 1), {}, {}, buf, Ep())

    def ch(p):
        for k, v in m.items():
            if k.startswith(p + '#'):
                return v
        return 0
    L = m.get('plen', 126)
    key = bytes(m.get('key[%d]' % i, 0) for i in range(4))
    if cfg['form'] == 16:
        head = bytes([0x80 | SEG_OPVALS[ch('op')], 0x80 | 126]) + struct.pack('!H', L) + key
    else:
        head = bytes([0x80 | SEG_OPVALS[ch('op')], 0x80 | 127]) + struct.pack('!Q', L) + key
    stream = head + bytes(m.get('pay[%d]' % i, 0) for i in range(ch('payload_bytes_present')))
    pos = [0, m.get('cut0', 0), m.get('cut1', 0), len(stream)]
    try:
        for a, b in zip(pos, pos[1:]):
            if b > a:
                handler(stream[a:b])
    except Exception as e:
        return True, 'handler raised %r with cuts %s of a %d-byte prefix of a frame announcing %d payload bytes' % (e, pos, len(stream), L)
    return bool(Ep.log) or buf.buf != stream, 'delivered=%d' % len(Ep.log)


R.add('L18.5', l185, [dict(form=16), dict(form=64)], replay=replay_l185,
      desc='frames with 16-bit / 64-bit extended length received in pieces cut inside the header: no exception, nothing delivered early',
      expect=['an incomplete frame is not delivered', 'the bytes of an incomplete frame stay buffered, untouched'],
      bounds='declared length 126..65535 / 65536..2^40 (symbolic), 0..3 payload bytes present, 2 symbolic cuts')


# ------------------------------------------------------------------ L18.4 writer
def l184():
    f, opi = sym_frame(plen_hi=200000)
    payload = rope.mk([('view', rope.Blob('payload', rope._zi(f.payload_length)), z3.IntVal(0), rope._zi(f.payload_length))])
    f.payload = payload
    s = Sock()
    ws.writeFrameFactory(s)(f)
    check(s.out == rfc_header(f, opi) + payload, 'writeFrame emits header ++ data header ++ payload')
    # the library's own constructors declare the payload length they carry
    msg, ml = rope.blob('msg', 0, 200000)
    for ctor, op in ((Frame.Binary, Op.Binary), (Frame.Ping, Op.Ping), (Frame.Pong, Op.Pong)):
        g = ctor(msg)
        check(And(g.payload_length == ml, g.flags.fin == 1), 'constructor sets fin and the payload length')
        check(g.flags.opcode == op and g.payload is msg, 'constructor sets its opcode and carries the message')


R.add('L18.4', l184, [{}], replay=replay_l184, desc='writeFrame output; constructors',
      expect=['writeFrame emits header ++ data header ++ payload'])


# ------------------------------------------------------------------ L18.6 frames the handler itself builds (send / close)
def l186():
    """server->client frames produced through the handler API: send(text) and close() write exactly one RFC 6455
    frame each (fin, opcode, unmasked, length form chosen by the payload length, payload = utf-8 of the text)"""
    from sx import text
    ep = Endpoint()
    req = FakeRequest()
    buf = ws.WebSocketTemporaryRingBuffer(req)
    handler = ws.WebSocketTemporaryHandler(('h', 1), {}, {}, buf, ep)
    msg = text.opaque('msg')
    payload = msg.encode('utf-8')
    L = rope.sx_len(payload)
    assume(L <= 200000)
    handler.send(msg)
    if bool(L <= 125):
        hdr = bytes([0x81]) + rope.field(L, 1)
    elif bool(L <= 65535):
        hdr = bytes([0x81, 126]) + rope.field(L, 2)
    else:
        hdr = bytes([0x81, 127]) + rope.field(L, 8)
    check(rope.rope_eq(req.written, hdr + payload), 'send(text) writes one unmasked final Text frame with the RFC length form and the utf-8 payload')
    check(req.chunked == 0, 'frames are written raw (no chunked transfer encoding)')
    n0 = rope.sx_len(req.written)
    try:
        handler.send(b'bytes are refused')
        check(False, 'send() of a non-str raises TypeError')
    except TypeError:
        pass
    check(rope.sx_len(req.written) == n0, 'a refused send writes nothing')
    handler.close()
    tail = req.written[n0:]
    check(rope.rope_eq(tail, bytes([0x88, 4, 0, 200]) + b'OK'), 'close() writes one final Close frame: status (2 bytes) ++ reason')
    check(handler.closed is True, 'the handler is marked closed')
    n1 = rope.sx_len(req.written)
    handler.close()
    check(rope.sx_len(req.written) == n1, 'a second close() writes nothing')
    # the remaining constructors
    g = Frame.Text(msg)
    check(And(g.payload_length == L, g.flags.fin == 1, g.flags.opcode == Op.Text), 'Text constructor: fin, opcode, utf-8 length')
    st = symint('status', 0, 65535)
    reason, rl = rope.blob('reason', 0, 100)
    c = Frame.Close(st, reason)
    check(And(c.payload_length == rl + 2, c.flags.fin == 1, c.flags.opcode == Op.Close), 'Close constructor: fin, opcode, length = 2 + reason')
    check(rope.rope_eq(c.payload, rope.field(st, 2) + reason), 'Close payload = big-endian status ++ reason')


def replay_l186(cfg, m):
    c = real('mpgameserver.http_server')

    class Req:
        chunked = 1
        written = b''

        def write(self, data):
            self.written += data

    class Ep:
        def callback(self, *a):
            pass
    req = Req()
    h = c.WebSocketTemporaryHandler(('h', 1), {}, {}, c.WebSocketTemporaryRingBuffer(req), Ep())
    n = max(0, min(int(m.get('msg_chars', 0)), 200000))
    msg = 'a' * n
    h.send(msg)
    L = len(msg)
    if L <= 125:
        hdr = bytes([0x81, L])
    elif L <= 65535:
        hdr = bytes([0x81, 126]) + L.to_bytes(2, 'big')
    else:
        hdr = bytes([0x81, 127]) + L.to_bytes(8, 'big')
    bad = req.written != hdr + msg.encode()
    n0 = len(req.written)
    h.close()
    bad2 = req.written[n0:] != bytes([0x88, 4, 0, 200]) + b'OK'
    h.close()
    bad3 = len(req.written) != n0 + 6
    return bad or bad2 or bad3, 'send(%d chars): frame ok=%s, close frame ok=%s, second close silent=%s' % (n, not bad, not bad2, not bad3)


R.add('L18.6', l186, [{}], replay=replay_l186,
      desc='frames built by the handler API: send(text) and close() each write exactly one RFC 6455 frame; Text/Close constructors',
      expect=['send(text) writes one unmasked final Text frame with the RFC length form and the utf-8 payload',
              'close() writes one final Close frame: status (2 bytes) ++ reason'],
      bounds='text of symbolic length with utf-8 length <= 200000 (all three length forms); close status 0..65535, reason <= 100 bytes')

for _lid in ['L18.1', 'L18.2', 'L18.3', 'L18.4', 'L18.5', 'L18.6']:
    if _lid in R.lemmas:
        R.lemmas[_lid].api = True

get_harness = R.get_harness
