"""C16 - HTTP router matches paths exactly as the documented pattern grammar says.

For every pattern of the documented grammar (<= 3 segments quick, <= 4 thorough) the regex string
returned by the real Router.patternToRegex is translated to a z3 Re term (sx/rx.py) and compared
with two reference languages over an unbounded symbolic path:
    must(p)  <=  L(regex)           (unmarked: every path the documentation says matches, matches)
    L(regex<>) <= may<>(p)          (marked: every way the regex can match/bind is an allowed binding)
plus route selection (first match / method / 404) through the real getRoute and dispatch with
pattern matching answered by the solver.
"""
import itertools
import re as _re

import z3

import sx
from sx import core, rx, text
from sx.core import check, assume, choose, SxBool, E
from .common import Registry, real

ws = sx.load('http_server')
R = Registry('C16')

LITS = ['a', 'ab', 'a.b']
KINDS = ['one', 'opt', 'plus', 'star']
SUFFIX = {'one': '', 'opt': '?', 'plus': '+', 'star': '*'}


def patterns(maxseg):
    """the documented grammar: literal and :name segments, at most one trailing ? + * parameter"""
    out = []
    plain = [('lit', l) for l in LITS] + [('one', None)]
    for n in range(0, maxseg + 1):
        for body in itertools.product(plain, repeat=n):
            out.append(list(body))
            if n < maxseg:
                for k in ('opt', 'plus', 'star'):
                    out.append(list(body) + [(k, None)])
    res = []
    for parts in out:
        named = []
        i = 0
        for kind, v in parts:
            if kind == 'lit':
                named.append((kind, v))
            else:
                named.append((kind, 'p%d' % i))
                i += 1
        res.append(named)
    return res


def parse_pattern(pat):
    parts = []
    for seg in [x for x in pat.split('/') if x]:
        if seg.startswith(':'):
            k = {'?': 'opt', '+': 'plus', '*': 'star'}.get(seg[-1], 'one')
            parts.append((k, seg[1:] if k == 'one' else seg[1:-1]))
        else:
            parts.append(('lit', seg))
    return parts


def render(parts):
    if not parts:
        return '/'
    return ''.join('/' + (v if k == 'lit' else ':' + v + SUFFIX[k]) for k, v in parts)


# ------------------------------------------------------------------ reference languages (z3)
def z_seg():
    return z3.Plus(rx.char_except(['/']))


def z_must(parts):
    r = []
    for k, v in parts:
        if k == 'lit':
            r.append(rx.lit('/' + v))
        elif k == 'one':
            r.append(rx.cat(rx.lit('/'), z_seg()))
        elif k == 'opt':
            r.append(z3.Option(rx.cat(rx.lit('/'), z_seg())))
        elif k == 'plus':
            r.append(z3.Plus(rx.cat(rx.lit('/'), z_seg())))
        else:
            r.append(z3.Star(rx.cat(rx.lit('/'), z_seg())))
    if not parts:
        return rx.lit('/')
    return rx.cat(*(r + [z3.Option(rx.lit('/'))]))


def z_may(parts):
    r = []
    g = 0
    nos = rx.char_except(['/'])
    for k, v in parts:
        if k == 'lit':
            r.append(rx.lit('/' + v))
            continue
        g += 1
        o, c = rx.lit(rx.open_m(g)), rx.lit(rx.close_m(g))
        if k == 'one':
            r.append(rx.cat(rx.lit('/'), o, z3.Plus(nos), c))
        elif k == 'opt':
            r.append(z3.Option(z3.Union(rx.cat(rx.lit('/'), o, z3.Star(nos), c), rx.lit('/'))))
        elif k == 'plus':
            r.append(rx.cat(rx.lit('/'), o, z3.Plus(rx.alphabet()), c))
        else:
            r.append(z3.Option(z3.Union(rx.cat(rx.lit('/'), o, z3.Star(rx.alphabet()), c), rx.lit('/'))))
    return rx.cat(*(r + [z3.Option(rx.lit('/'))]))


# ------------------------------------------------------------------ reference languages (python re, for replay)
_CH = '[^\\x00-\\x1f\\x7f]'
_NOS = '[^\\x00-\\x1f\\x7f/]'


def py_must(parts):
    r = ''
    for k, v in parts:
        if k == 'lit':
            r += _re.escape('/' + v)
        elif k == 'one':
            r += '/' + _NOS + '+'
        elif k == 'opt':
            r += '(?:/' + _NOS + '+)?'
        elif k == 'plus':
            r += '(?:/' + _NOS + '+)+'
        else:
            r += '(?:/' + _NOS + '+)*'
    if not parts:
        return '/'
    return r + '/?'


def py_may(parts):
    r = ''
    g = 0
    for k, v in parts:
        if k == 'lit':
            r += _re.escape('/' + v)
            continue
        g += 1
        o, c = _re.escape(rx.open_m(g)), _re.escape(rx.close_m(g))
        if k == 'one':
            r += '/' + o + _NOS + '+' + c
        elif k == 'opt':
            r += '(?:/' + o + _NOS + '*' + c + '|/)?'
        elif k == 'plus':
            r += '/' + o + _CH + '+' + c
        else:
            r += '(?:/' + o + _CH + '*' + c + '|/)?'
    return r + '/?'


def strip_marks(s):
    return ''.join(ch for ch in s if ord(ch) >= 0x20)


# ------------------------------------------------------------------ L16.1 per-pattern inclusions
def l161(batch, maxseg, nb):
    pats = patterns(maxseg)
    mine = pats[batch::nb]
    parts = mine[choose(len(mine), 'pattern')]
    pattern = render(parts)
    router = ws.Router()
    regex, tokens = router.patternToRegex(pattern)
    names = [v for k, v in parts if k != 'lit']
    check(list(tokens) == names, 'parameter names reported in order', pattern=pattern)
    src = regex.pattern
    try:
        marked = rx.translate(src, marks=True)
        plain = rx.translate(src, marks=False)
    except rx.RxUnsupported as ex:
        raise core.Unsupported('regex construct: %s in %r' % (ex, src))
    e = E()
    s = z3.String('path')
    core.declare_input('path', s)
    lower = z3.Implies(z3.InRe(s, z_must(parts)), z3.InRe(s, plain))
    check(SxBool(lower), 'every path the documented rule accepts is matched', pattern=pattern, regex=src, which='lower')
    upper = z3.Implies(z3.InRe(s, marked), z3.InRe(s, z_may(parts)))
    check(SxBool(upper), 'every match (and binding) of the regex is allowed by the documented rule',
          pattern=pattern, regex=src, which='upper')


def real_marked(router_mod, pattern, path):
    """run the real router; return (matched, marked path built from the real capture spans)"""
    r = router_mod.Router()
    regex, tokens = r.patternToRegex(pattern)
    m = regex.match(path)
    if not m:
        return False, None, None
    ins = []
    for g in range(1, regex.groups + 1):
        if m.group(g) is not None:
            a, b = m.span(g)
            ins.append((a, 0, g, rx.open_m(g)))
            ins.append((b, 1, g, rx.close_m(g)))
    out = []
    pos = sorted(ins, key=lambda t: (t[0], t[1] == 0, t[2]))
    # build string with markers: closes before opens at the same offset
    res = ''
    for i, ch in enumerate(path + '\0'):
        for t in [t for t in ins if t[0] == i and t[1] == 1]:
            res += t[3]
        for t in [t for t in ins if t[0] == i and t[1] == 0]:
            res += t[3]
        if i < len(path):
            res += ch
    route = r.getRoute  # the public path is exercised below by the caller
    return True, res, dict(zip(tokens, m.groups()))


def replay_l161(cfg, m, extra=None):
    c = real('mpgameserver.http_server')
    pats = patterns(cfg['maxseg'])
    mine = pats[cfg['batch']::cfg['nb']]
    k = [v for kk, v in m.items() if kk.startswith('pattern')][0]
    parts = mine[k]
    pattern = render(parts)
    path = strip_marks(m.get('path', ''))
    matched, marked, groups = real_marked(c, pattern, path)
    in_must = _re.fullmatch(py_must(parts), path) is not None
    # through the public API as well
    r = c.Router()
    r.registerRoutes([c.Route('t', 'GET', pattern, lambda req: None)])
    got = r.getRoute('GET', path)
    if (got is not None) != matched:
        return True, 'getRoute disagrees with its own regex'
    names = [v for kk, v in parts if kk != 'lit']
    try:
        tokens = list(r.patternToRegex(pattern)[1])
    except Exception as ex:
        return True, 'patternToRegex(%r) raised %r' % (pattern, ex)
    if tokens != names:
        return True, 'pattern %s: parameter names reported as %r, expected %r' % (pattern, tokens, names)
    if got is not None and sorted(got[1].keys()) != sorted(names):
        return True, 'pattern %s path %r: bindings reported under %r, expected the names %r' % (pattern, path, sorted(got[1].keys()), names)
    if in_must and not matched:
        return True, 'pattern %s does not match %r although the documented rule says it does' % (pattern, path)
    if matched:
        ok = _re.fullmatch(py_may(parts), marked) is not None
        if not ok:
            return True, 'pattern %s matches %r with bindings %r, which the documented rule does not allow' % (pattern, path, groups)
    return False, 'pattern %s path %r: real behaviour is allowed (matched=%s)' % (pattern, path, matched)


NB = 16


def l161_instances(tier):
    maxseg = 3 if tier == 'quick' else 4
    return [dict(batch=b, maxseg=maxseg, nb=NB) for b in range(NB)]


R.add('L16.1', l161, l161_instances, replay=replay_l161,
      desc='must(p) <= L(regex) and L(regex<>) <= may<>(p) for every pattern of the documented grammar; unbounded symbolic path',
      expect=['every path the documented rule accepts is matched',
              'every match (and binding) of the regex is allowed by the documented rule'],
      bounds='patterns of <= 3 (thorough 4) segments over {a, ab, a.b, :x} + one trailing :x? / :x+ / :x*; path = any string '
             'over the non-control characters, any length')


# ------------------------------------------------------------------ L16.2 malformed patterns
def l162():
    router = ws.Router()
    qs = ['?', '+', '*']
    a = qs[choose(3, 'first')]
    b = qs[choose(3, 'second')]
    mid = ['', '/x', '/:m'][choose(3, 'mid')]
    pattern = '/:p%s%s/:q%s' % (a, mid, b)
    try:
        router.patternToRegex(pattern)
        raised = False
    except ValueError:
        raised = True
    check(raised, 'a second ? + * parameter is refused with ValueError', pattern=pattern)


def replay_l162(cfg, m):
    c = real('mpgameserver.http_server')
    qs = ['?', '+', '*']

    def ch(p):
        return [v for k, v in m.items() if k.startswith(p)][0]
    pattern = '/:p%s%s/:q%s' % (qs[ch('first')], ['', '/x', '/:m'][ch('mid')], qs[ch('second')])
    try:
        c.Router().patternToRegex(pattern)
        return True, 'no ValueError for %s' % pattern
    except ValueError:
        return False, 'raised'


R.add('L16.2', l162, [{}], replay=replay_l162, desc='two multi-segment parameters are refused',
      expect=['a second ? + * parameter is refused with ValueError'])


# ------------------------------------------------------------------ L16.3 route selection through getRoute/dispatch
class SymMatch:
    def __init__(self, n):
        self.n = n

    def groups(self):
        return tuple('<g%d>' % i for i in range(self.n))


class SymPattern:
    """stands in for a compiled pattern inside the real getRoute: match() is decided by the solver"""

    def __init__(self, real_pattern):
        self.pattern = real_pattern.pattern
        self.groups = real_pattern.groups
        self.lang = rx.translate(self.pattern, marks=False)

    def match(self, path):
        if bool(SxBool(z3.InRe(text.term_of(path), self.lang))):
            return SymMatch(self.groups)
        return None


TABLE_PATTERNS = ['/a', '/a/:x', '/:x', '/a/:x?', '/:x+', '/a/:x*', '/ab', '/a/ab']
METHODS = ['GET', 'POST', 'PUT', 'DELETE']


class Req:
    def __init__(self, method, path):
        self.method = method
        self.path = path
        self.client_address = ('10.0.0.1', 1)
        self.matches = None


def l163(nroutes):
    from sx.models import env_m
    env_m.set_clock(env_m.Clock(start=1.7e9))      # wall clock of the rate limiter: a realistic epoch time
    # another router of the same process has its own routes: they are not this router's business
    other = ws.Router()
    other.registerRoutes([ws.Route('foreign', 'GET', TABLE_PATTERNS[0], (lambda req: ('foreign',))),
                          ws.Route('foreign2', 'POST', TABLE_PATTERNS[-1], (lambda req: ('foreign',)))])
    router = ws.Router()
    routes = []
    parts_of = {p: parse_pattern(p) for p in TABLE_PATTERNS}
    for i in range(nroutes):
        pat = TABLE_PATTERNS[choose(len(TABLE_PATTERNS), 'route%d' % i)]
        meth = METHODS[choose(2, 'method%d' % i)]          # GET / POST
        routes.append(ws.Route('r%d' % i, meth, pat, (lambda req, i=i: ('handled', i))))
    # the request path is a text proxy (so that any table lookup or comparison the router performs on it is
    # decided symbolically too), over the ordinary alphabet
    path = text.atom('path', nosep='', nonempty=False)
    s = text.term_of(path)
    e = E()
    e.add(z3.InRe(s, z3.Star(rx.alphabet())))
    mi = choose(3, 'req_method')
    method = ['GET', 'POST', 'PATCH'][mi]

    def register(batch):
        router.registerRoutes(batch)
        # swap the compiled patterns for solver-backed ones
        for meth in router.route_table:
            router.route_table[meth] = [(rp if isinstance(rp, SymPattern) else SymPattern(rp), tok, ep)
                                        for rp, tok, ep in router.route_table[meth]]

    def lookup(known):
        """getRoute + dispatch against the reference: first registered route of that method whose documented language
        contains the path"""
        got = router.getRoute(method, path)
        cands = [r for r in known if r.method == method]
        if got is None:
            for r in cands:
                check(SxBool(z3.Not(z3.InRe(s, z_must(parts_of[r.pattern])))), 'no route returned => no route of that method matches')
        else:
            ep, matches = got
            check(any(ep is r for r in known), 'the chosen route is one that was registered with this router')
            check(ep.method == method, 'chosen route has the request method')
            idx = cands.index(ep)
            for r in cands[:idx]:
                check(SxBool(z3.Not(z3.InRe(s, z_must(parts_of[r.pattern])))), 'an earlier registered matching route would have been chosen')
        # dispatch: 404 exactly when nothing matches
        # the real Request object, as RequestFactory.process builds it: whatever its constructor does to the path is part of routing
        req = ws.Request(('10.0.0.1', 1), method, path, {}, '', {}, None)
        ws_request_response = ws.request_response
        try:
            ws.request_response = lambda endpt, request: ('ROUTED', endpt)
            resp = router.dispatch(req)
        finally:
            ws.request_response = ws_request_response
        if got is None:
            check(isinstance(resp, ws.JsonResponse) and resp.status_code == 404, 'a path that matches nothing yields 404')
        else:
            check(isinstance(resp, tuple) and resp[1] is got[0], 'dispatch routes to the route getRoute chose')
    # routes may be registered in two batches with requests in between: the answer always reflects the table as it is
    first = choose(nroutes + 1, 'registered_first')
    if first < nroutes:
        register(routes[:first])
        lookup(routes[:first])
        register(routes[first:])
    else:
        register(routes)
    lookup(routes)


def replay_l163(cfg, m):
    c = real('mpgameserver.http_server')

    def ch(p):
        for k, v in m.items():
            if k.startswith(p + '#'):
                return v
        return 0
    routes = []
    for i in range(cfg['nroutes']):
        routes.append(c.Route('r%d' % i, METHODS[ch('method%d' % i)], TABLE_PATTERNS[ch('route%d' % i)], None))
    other = c.Router()
    other.registerRoutes([c.Route('foreign', 'GET', TABLE_PATTERNS[0], None), c.Route('foreign2', 'POST', TABLE_PATTERNS[-1], None)])
    r = c.Router()
    method = ['GET', 'POST', 'PATCH'][ch('req_method')]
    path = m.get('path', '')
    first = ch('registered_first')
    if first < cfg['nroutes']:
        r.registerRoutes(routes[:first])
        r.getRoute(method, path)                      # a request before the second batch of routes exists
        try:
            saved0 = c.request_response
            c.request_response = lambda endpt, request: ('ROUTED', endpt)
            r.dispatch(c.Request(('10.0.0.1', 1), method, path, {}, '', {}, None))
        except Exception:
            pass
        finally:
            c.request_response = saved0
        r.registerRoutes(routes[first:])
    else:
        r.registerRoutes(routes)
    got = r.getRoute(method, path)
    if got is not None and not any(got[0] is x for x in routes):
        return True, 'getRoute(%s, %r) returned %r, which was never registered with this router' % (method, path, got[0])
    parts_of = {p: parse_pattern(p) for p in TABLE_PATTERNS}
    cands = [x for x in routes if x.method == method]
    first_must = None
    for x in cands:
        if _re.fullmatch(py_must(parts_of[x.pattern]), path):
            first_must = x
            break
    # dispatch on the real router: 404 exactly when nothing matches, otherwise the chosen route
    saved = c.request_response
    try:
        c.request_response = lambda endpt, request: ('ROUTED', endpt)
        try:
            resp = r.dispatch(c.Request(('10.0.0.1', 1), method, path, {}, '', {}, None))
        except Exception as ex:
            return True, 'dispatch raised %r for %s %r' % (ex, method, path)
    finally:
        c.request_response = saved
    if got is None:
        if first_must is not None:
            return True, 'None returned but %s must match %r' % (first_must, path)
        code = getattr(resp, 'status_code', None)
        return code != 404, 'no route matches %s %r: dispatch answered %r' % (method, path, code if code is not None else resp)
    if not (isinstance(resp, tuple) and resp[1] is got[0]):
        return True, 'dispatch did not route %s %r to the route getRoute chose (%r)' % (method, path, resp)
    idx = cands.index(got[0])
    bad = first_must is not None and cands.index(first_must) < idx
    return bad, 'chose %s for %r' % (got[0], path)


R.add('L16.3', l163, lambda tier: [dict(nroutes=n) for n in ((1, 2) if tier == 'quick' else (1, 2, 3))], replay=replay_l163,
      desc='real getRoute/dispatch over tables of <= 2 (thorough 3) routes, pattern matching decided by the solver: first '
           'registered matching route of the method, else None / 404',
      expect=['a path that matches nothing yields 404', 'dispatch routes to the route getRoute chose'],
      bounds='tables of <= 2 (thorough 3) routes from 8 patterns x {GET, POST}; request method GET/POST/unsupported; unbounded path')

for _lid in ['L16.1', 'L16.2', 'L16.3']:
    if _lid in R.lemmas:
        R.lemmas[_lid].api = True

get_harness = R.get_harness
