"""C07 - send callbacks are truthful and fire exactly once.

L7.1 one resolution step of the real _handle_ack_bits from an arbitrary pending table (exactly-once,
acked <=> named by ack/ack_bits, timeout only after the message timeout), L7.3 user-callback
counting for unretried, guaranteed (round trips longer than the resend interval) and fragmented sends.
"""
import z3

import sx
from sx import core, rope
from sx.core import symint, symbool, symreal, symbv, check, assume, choose, SxInt, SxBool, E, And, Or, Not, Iff
from .common import Registry, real, generic_replay
from . import proto
from .proto import conn, Packet, PacketType, SeqNum, RetryMode, Status, Rec, KEY

R = Registry('C07')


def bit32(bits, i):
    if isinstance(bits, SxInt) and bits.z is not None:
        return SxBool(z3.Extract(i, i, bits.z) == 1)
    return bool((int(bits) >> i) & 1)


# ------------------------------------------------------------------ L7.1
def l71(p):
    now = symreal('now', lo=10)
    clock = proto.clock_at(now)
    c = proto.mk_base(clock=clock)
    proto.havoc_counters(c)
    c.outgoing_timeout = symreal('timeout', lo=0.001)
    c.last_recv_time = now
    ack = symint('ack', 1, 65535)
    ack_bits = symbv('ack_bits', 32)
    ds, seqs, times, recs = [], [], [], []
    for i in range(p):
        d = symint('d%d' % i, -32767, 32767)
        if i < p - 1:
            # companions sit at representative offsets; the last entry ranges over the whole half ring
            assume(Or(d == 0, d == 1, d == 32, d == 33, d == -5))
        for e_ in ds:
            assume(d != e_)
        s = SeqNum(ack) + (-d)
        t = symreal('sent%d' % i, lo=0, hi=now)
        r = Rec('cb%d' % i)
        c.pending_acks[s] = t
        c.pending_callbacks[s] = [r]
        ds.append(d)
        seqs.append(s)
        times.append(t)
        recs.append(r)
    acked0, to0 = c.stats.acked, c.stats.timeouts
    hdr = conn.PacketHeader.create(True, 100, PacketType.KEEP_ALIVE, SeqNum(1), SeqNum(ack), ack_bits)
    c._handle_ack_bits(hdr)
    removed = 0
    for d, s, t, r in zip(ds, seqs, times, recs):
        if bool(d == 0):
            named = True
        elif bool(And(d >= 1, d <= 32)):
            named = bit32(ack_bits, 32 - core.concrete(d, cap=40))
        else:
            named = False
        named = bool(named)
        gone = bool(s not in c.pending_acks)
        removed += 1 if gone else 0
        check(len(r.calls) <= 1, 'a datagram is resolved at most once')
        check(gone == (len(r.calls) == 1), 'resolved <=> callback fired <=> entry removed')
        if named:
            check(r.calls == [True], 'a datagram named by ack/ack_bits is acknowledged (callback True)')
        else:
            check(r.calls != [True], 'success is reported only for datagrams the peer named')
            if r.calls == [False]:
                check((now - t) > c.outgoing_timeout, 'failure is reported only after the message timeout has elapsed')
        check(Or(gone, s in c.pending_callbacks), 'unresolved datagram keeps its callbacks')
    check(c.stats.acked - acked0 + c.stats.timeouts - to0 == removed, 'acked + timeouts counts every resolution exactly once')


R.add('L7.1', l71, lambda tier: [dict(p=p) for p in ((1, 2) if tier == 'quick' else (1, 2, 3))],
      desc='_handle_ack_bits from an arbitrary pending table: exactly-once resolution, acked <=> named, timeout only when old',
      expect=['a datagram named by ack/ack_bits is acknowledged (callback True)', 'success is reported only for datagrams the peer named',
              'failure is reported only after the message timeout has elapsed'],
      bounds='<= 2 (thorough 3) pending datagrams: one at an arbitrary ring offset |d| <= 32767, companions at offsets {0,1,32,33,-5}; arbitrary ack_bits, clock and timeout')


# ------------------------------------------------------------------ L7.3a unretried send
def l73a():
    clock = proto.clock_at(100.0)
    c = proto.mk_base(clock=clock)
    cb = Rec('user')
    payload, L = rope.blob('p', 0, None)
    assume(L <= Packet.MAX_PAYLOAD_SIZE)
    c.send(payload, RetryMode.NONE, cb)
    others = choose(3, 'other_msgs')
    for i in range(others):
        c.send(b'x', RetryMode.NONE, None)
    pkt = c._build_packet_impl(100.0, False, 0.1)
    s = c.seq_sending
    holders = sum(1 for m in c.outgoing_messages if m.callback is cb) + sum(1 for k, v in c.pending_callbacks.items() for x in v if x is cb)
    check(holders + len(cb.calls) == 1, 'the callback lives in exactly one place (queue | in flight | fired)')
    # later ticks must not attach it again
    clock.advance(0.2)
    pkt2 = c._build_packet_impl(100.2, True, 0.1)
    holders = sum(1 for m in c.outgoing_messages if m.callback is cb) + sum(1 for k, v in c.pending_callbacks.items() for x in v if x is cb)
    check(holders + len(cb.calls) == 1, 'an unretried message is never attached to a second datagram')
    outcome = choose(2, 'outcome')
    if outcome == 0:
        c._handle_ack(s)
        check(cb.calls == [True], 'ack: callback(True) exactly once')
    else:
        c._handle_timeout(s)
        check(cb.calls == [False], 'timeout: callback(False) exactly once')
    # nothing left that could fire it again
    holders = sum(1 for m in c.outgoing_messages if m.callback is cb) + sum(1 for k, v in c.pending_callbacks.items() for x in v if x is cb)
    check(holders == 0, 'after resolution the callback cannot fire again')


R.add('L7.3a', l73a, [{}], desc='RetryMode.NONE with callback: exactly one firing',
      expect=['ack: callback(True) exactly once', 'timeout: callback(False) exactly once'])


# ------------------------------------------------------------------ L7.3b guaranteed send, RTT > resend interval
def l73b(rounds):
    """send_guaranteed; the peer is slow: the message is re-sent on the resend interval before the first
    ack arrives, so several datagrams carry it.  Each of them is then acked / timed out / left pending
    by symbolic choice, in any order."""
    clock = proto.clock_at(100.0)
    c = proto.mk_base(clock=clock)
    cb = Rec('user')
    payload, L = rope.blob('p', 0, None)
    assume(L <= Packet.MAX_PAYLOAD_SIZE)
    c.send(payload, proto.retry_arg(RetryMode.RETRY_ON_TIMEOUT), cb)
    sent = []
    for r_ in range(rounds):
        pkt = c._build_packet()
        if pkt is not None:
            sent.append(c.seq_sending)
        clock.advance(0.11)             # > send_keep_alive_interval (the resend delay), < message timeout
    check(len(sent) >= 1, 'message sent')
    any_ack = False
    for i, s in enumerate(sent):
        o = choose(3, 'fate%d' % i)     # 0 ack, 1 timeout, 2 still pending
        if s not in c.pending_acks:
            continue
        if o == 0:
            c._handle_ack(s)
            any_ack = True
        elif o == 1:
            c._handle_timeout(s)
    check(all(x is True for x in cb.calls), 'a guaranteed send never reports failure')
    check(len(cb.calls) <= 1, 'the callback of a guaranteed send fires at most once')
    if any_ack:
        check(cb.calls == [True], 'once a carrying datagram is acknowledged the callback has fired exactly once')
        # and the delivered message must not be queued for yet another retransmission round afterwards
    # drain: whatever is still pending gets acked now; the count must stay exact
    for s in list(c.pending_acks):
        c._handle_ack(s)
    check(len(cb.calls) <= 1, 'late acks of other carrying datagrams do not fire it again')


R.add('L7.3b', l73b, lambda tier: [dict(rounds=r) for r in ((2, 3) if tier == 'quick' else (2, 3, 4))],
      desc='guaranteed single-datagram send carried by several datagrams (RTT > resend interval): callback exactly once, True',
      expect=['the callback of a guaranteed send fires at most once', 'once a carrying datagram is acknowledged the callback has fired exactly once'],
      bounds='2..3 (thorough 4) transmissions, every ack/timeout/pending combination')


# ------------------------------------------------------------------ L7.3c fragmented sends
def l73c(mode, maxfrag):
    clock = proto.clock_at(100.0)
    c = proto.mk_base(clock=clock)
    cb = Rec('user')
    payload, L = rope.blob('p', 0, None)
    assume(L > Packet.MAX_PAYLOAD_SIZE)
    assume(L <= Packet.MAX_PAYLOAD_SIZE + (maxfrag - 1) * Packet.MAX_FRAGMENT_SIZE)
    retry = {'none': RetryMode.NONE, 'retry': RetryMode.RETRY_ON_TIMEOUT}[mode]
    c.send(payload, proto.retry_arg(retry), cb)
    nfrag = len(c.outgoing_messages)
    sent = []
    for i in range(nfrag + 1):
        if not c.outgoing_messages:
            break
        pkt = c._build_packet_impl(100.0 + i, False, 1000.0)
        sent.append(c.seq_sending)
    check(len(c.outgoing_messages) == 0, 'all fragments left')
    if mode == 'retry':
        # guaranteed: every carrying datagram is acked or times out by symbolic choice; what times out is
        # re-queued and sent again; in the last round everything still pending is acknowledged
        pending = list(sent)
        t = 200.0
        for rnd in range(2):
            for i, s in enumerate(pending):
                if s not in c.pending_acks:
                    continue
                if bool(symbool('r%d_timeout%d' % (rnd, i))):
                    c._handle_timeout(s)
                else:
                    c._handle_ack(s)
                check(False not in cb.calls, 'a guaranteed fragmented send never reports failure')
                check(len(cb.calls) <= 1, 'at most one callback')
            pending = []
            for j in range(nfrag + 1):
                if not c.outgoing_messages:
                    break
                c._build_packet_impl(t, False, 1000.0)
                t += 1.0
                pending.append(c.seq_sending)
        for s in list(c.pending_acks):
            c._handle_ack(s)
        check(cb.calls == [True], 'the callback of a guaranteed fragmented send fires exactly once, with True, when every fragment is acknowledged')
        check(len(cb.calls) == 1, 'the callback of a fragmented send fires exactly once')
        return
    all_acked = True
    for i, s in enumerate(sent):
        if not bool(symbool('timeout%d' % i)):
            c._handle_ack(s)
        else:
            c._handle_timeout(s)
            all_acked = False
        if i < len(sent) - 1:
            check(cb.calls == [], 'no callback before every fragment is resolved')
    check(len(cb.calls) == 1, 'the callback of a fragmented send fires exactly once')
    if cb.calls:
        check(cb.calls[0] is all_acked, 'it reports success iff every fragment was acknowledged')


R.add('L7.3c', l73c, lambda tier: [dict(mode=m, maxfrag=(2 if tier == 'quick' else 3)) for m in ('none', 'retry')],
      desc='fragmented send (unretried / guaranteed): user callback exactly once after all fragments are resolved',
      expect=['the callback of a fragmented send fires exactly once'])


# ------------------------------------------------------------------ L7.4 acked => accepted by the peer
def l74(fragment):
    """the receiver acknowledges a datagram only if it accepted the messages in it: a fresh genuine datagram
    carrying a message that was never received before - at any distance from the newest message seen, inside
    or far outside the 256-message window - is either not accepted (so never acked: the sender times out) or
    its message reaches the application / the reassembly table"""
    rx, ok, e_, seen, y, payload = proto.msg_gate_world(-32767, 32767, fragment)
    if seen is not None:
        assume(Not(seen))           # never received before (outside the window: by the choice of history)
    got = len(rx.incoming_messages) + len(rx.received_fragments)
    if ok is True:
        # the datagram is in the receive window now, so every later header acks it (C08 L8.5)
        check(rx.bitfield_pkt.contains(rx.bitfield_pkt.current_seqnum), 'the accepted datagram will be acked')
        check(got == 1, 'an acknowledged datagram delivered its never-before-received message to the peer')
        if got == 1 and not fragment:
            check(rope.rope_eq(rx.incoming_messages[0][1], payload), 'the delivered message is the one sent')
    else:
        check(got == 0, 'a refused datagram delivers nothing')


def replay_l74(cfg, m):
    m = dict(m)
    if m.get('e', 0) >= 0 and m.get('e', 0) <= 256:
        # make sure the message itself is not a member of the window built through the API
        k = 256 - m['e']
        if m['e'] == 0:
            return False, 'e == 0 is the newest message itself'
        m['msg_bits'] = m['msg_bits'] & ~(1 << k)
    r = proto.replay_msg_gate(m, cfg['fragment'])
    if r is None:
        return False, 'window state not reached through the API'
    ok, got, before = r
    return ok is True and got != 1 and not before, \
        'msg_cur=%d e=%d: datagram accepted (and acked)=%s but the never-received message was delivered %d time(s)' % (
            m['msg_cur'], m['e'], ok, got)


R.add('L7.4', l74, [dict(fragment=False), dict(fragment=True)], replay=replay_l74,
      desc='acked => accepted: a datagram the receiver accepts (hence acks) delivers its never-before-received message, '
           'whatever the distance of its message seq from the newest one seen (-32767..32767)',
      expect=['an acknowledged datagram delivered its never-before-received message to the peer'],
      bounds='one receive step from an arbitrary 256-bit message window; offsets -32767..32767; payload <= 100 opaque bytes')


# ------------------------------------------------------------------ L7.5 two endpoints: True only after the peer has the message
def l75(ticks, fragmented):
    """a guaranteed send (single datagram or fragmented) between two real endpoints; every transmission and every
    ack-carrying reply of the first rounds is lost or delivered by symbolic choice, then the network heals.  At every
    tick: if the callback has reported True the peer application already holds the whole message; at the end the
    callback has fired exactly once, with True."""
    clock = proto.clock_at(100.0)
    tx = proto.mk_client_side(clock=clock)
    rx = proto.mk_server_side(clock=clock)
    # something was sent before, so that message sequence numbers are not all fresh
    warm, wl = rope.blob('warmup', 0, 20)
    tx.send(warm, RetryMode.NONE, None)
    raw0 = tx._encode_packet(tx._build_packet())
    rx._recv_datagram(conn.PacketHeader.from_bytes(True, raw0), raw0)
    rx.incoming_messages = []
    if fragmented:
        # an earlier fragmented guaranteed send of the same process went through without loss: every send has its own
        # sender object, nothing of it may leak into the next one
        p0 = rope.fixed_blob('earlier', Packet.MAX_PAYLOAD_SIZE + 10)
        cb0 = Rec('earlier')
        tx.send(p0, RetryMode.RETRY_ON_TIMEOUT, cb0)
        for _ in range(6):
            clock.advance(0.05)
            pk = tx._build_packet()
            if pk is not None:
                rw = tx._encode_packet(pk)
                rx._recv_datagram(conn.PacketHeader.from_bytes(True, rw), rw)
            rp = rx.update()
            if rp is not None:
                rr = rp[0].to_bytes(rp[1])
                tx._recv_datagram(conn.PacketHeader.from_bytes(False, rr), rr)
        check(cb0.calls == [True] and len(rx.incoming_messages) == 1, 'the earlier fragmented send completed')
        rx.incoming_messages = []
    payload, L = rope.blob('p', 0, None)
    if fragmented:
        assume(And(L > Packet.MAX_PAYLOAD_SIZE, L <= Packet.MAX_PAYLOAD_SIZE + Packet.MAX_FRAGMENT_SIZE))
    else:
        assume(L <= Packet.MAX_PAYLOAD_SIZE)
    cb = Rec('user')
    tx.send(payload, proto.retry_arg(RetryMode.RETRY_ON_TIMEOUT), cb)
    lossy = 2
    for tick in range(ticks):
        clock.advance(0.6)
        healed = tick >= lossy
        t0 = tx.clock()
        pkt = tx._build_packet()
        if pkt is not None:
            raw = tx._encode_packet(pkt)
            if healed or not bool(symbool('lose_data%d' % tick)):
                rx._recv_datagram(conn.PacketHeader.from_bytes(True, raw), raw)
        tx._check_timeout(t0)
        rep = rx.update()
        if rep is not None:
            rpkt, rkey, raddr = rep
            rraw = rpkt.to_bytes(rkey)
            if healed or not bool(symbool('lose_ack%d' % tick)):
                tx._recv_datagram(conn.PacketHeader.from_bytes(False, rraw), rraw)
        got = [d for s_, d in rx.incoming_messages]
        if True in cb.calls:
            check(len(got) >= 1 and got[0] == payload, 'success is reported only after the peer has accepted the whole message', tick=tick)
        check(False not in cb.calls, 'a guaranteed send never reports failure while the connection is open', tick=tick)
        check(len(cb.calls) <= 1, 'the callback fires at most once', tick=tick)
    check(cb.calls == [True], 'after the network healed the callback has fired exactly once, with True')


R.add('L7.5', l75, lambda tier: [dict(ticks=(5 if tier == 'quick' else 7), fragmented=False), dict(ticks=(7 if tier == 'quick' else 9), fragmented=True)],
      desc='two real endpoints, guaranteed send (single / fragmented), symbolic losses in both directions then a healed network: '
           'True only once the peer holds the message; exactly one firing',
      expect=['success is reported only after the peer has accepted the whole message',
              'after the network healed the callback has fired exactly once, with True'],
      bounds='5 / 7 (thorough 7 / 9) ticks of 0.6 s, losses in the first 2 rounds; payload up to one fragment above the single-datagram limit')

import sys as _sys  # noqa: E402
for _l in R.lemmas.values():
    if _l.replay is None:
        _l.replay = generic_replay(_l.func, [proto, _sys.modules[__name__]])

for _lid in ['L7.3a', 'L7.3b', 'L7.3c', 'L7.5']:
    if _lid in R.lemmas:
        R.lemmas[_lid].api = True

get_harness = R.get_harness
