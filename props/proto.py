"""Shared helpers for the protocol properties (C01-C07, C10-C12): instrumented modules, state
builders, recorder callbacks, mock network plumbing."""
import z3

import sx
from sx import core, rope
from sx.core import symint, symbool, symreal, check, assume, choose, SxInt, SxBool, E, And, Or, Not, Iff
from sx.models import env_m

conn = sx.load('connection')
ctx_mod = sx.load('context')
client_mod = sx.load('client')
Packet, PacketHeader, PacketType, SeqNum = conn.Packet, conn.PacketHeader, conn.PacketType, conn.SeqNum
PendingMessage, RetryMode, Status = conn.PendingMessage, conn.RetryMode, conn.ConnectionStatus
KEY = b'K' * 16
KEY2 = b'Q' * 16
MODES = [RetryMode.NONE, RetryMode.BEST_EFFORT, RetryMode.RETRY_ON_TIMEOUT]


class Rec:
    """recording send callback"""

    def __init__(self, name='cb'):
        self.name = name
        self.calls = []

    def __call__(self, ok):
        self.calls.append(ok)


class Handler:
    def __init__(self):
        self.events = []

    def connect(self, client):
        self.events.append(('connect', client))

    def disconnect(self, client):
        self.events.append(('disconnect', client))

    def handle_message(self, client, seqnum, msg):
        self.events.append(('message', client, seqnum, msg))

    def update(self, dt):
        pass

    def starting(self):
        self.events.append(('starting',))

    def shutdown(self):
        self.events.append(('shutdown',))


def clock_at(t=None, fresh=False):
    c = env_m.Clock(start=t, fresh=fresh) if t is not None else env_m.Clock(fresh=fresh)
    env_m.set_clock(c)
    return c


def mk_base(server=False, clock=None, key=KEY, status=None):
    c = conn.ConnectionBase(server, ('peer', 1))
    c.status = Status.CONNECTED if status is None else status
    c.session_key_bytes = key
    if clock is not None:
        c.clock = clock
    return c


def mk_ctxt(handler=None):
    return ctx_mod.ServerContext(handler or Handler())


def mk_server_side(ctxt=None, clock=None, key=KEY, status=None, addr=('cli', 7)):
    ctxt = ctxt or mk_ctxt()
    c = conn.ServerClientConnection(ctxt, addr)
    c.status = Status.CONNECTED if status is None else status
    c.session_key_bytes = key
    if clock is not None:
        c.clock = clock
    return c


def mk_client_side(clock=None, key=KEY, status=None):
    c = conn.ClientServerConnection(('srv', 9))
    c.status = Status.CONNECTED if status is None else status
    c.session_key_bytes = key
    if clock is not None:
        c.clock = clock
    return c


def retry_arg(mode, name='retry_spelling'):
    """the retry argument as an application may legitimately pass it: the enum member itself, its plain int value (the
    documented form of UdpClient.send, whose default is the int -1) or an equal but distinct enum instance built from the value"""
    how = choose(3, name)
    if how == 0:
        return mode
    if how == 1:
        return int(mode.value)
    return type(mode)(int(mode.value))


def new_key(name):
    """EllipticCurvePrivateKey: a model key under sx, a real P-256 key in a concrete replay"""
    if core._rp() is not None:
        return conn.crypto.EllipticCurvePrivateKey.new()
    from sx.models import crypto_m
    return conn.crypto.EllipticCurvePrivateKey(crypto_m.new_private_key(name))


def sym_seq(name, lo=1):
    return SeqNum(symint(name, lo, 65535))


def opaque(name, lo=0, hi=None):
    return rope.blob(name, lo, hi)


def sym_window(c, name='w'):
    """arbitrary receive windows on connection c (packet window 32 bits, message window 256 bits)"""
    c.bitfield_pkt.current_seqnum = SeqNum(symint(name + '_pkt_cur', 1, 65535))
    c.bitfield_pkt.bits = core.symbv(name + '_pkt_bits', 32)
    c.bitfield_msg.current_seqnum = SeqNum(symint(name + '_msg_cur', 1, 65535))
    c.bitfield_msg.bits = core.symbv(name + '_msg_bits', 256)


def havoc_counters(c, skip=('latency',)):
    """inductive step, taken seriously: every integer counter of the connection and of its statistics object that starts
    at zero is arbitrary (>= 0) - including counters a later version of the code adds and the harness cannot know by name
    (a 'consecutive bad datagrams' counter with a threshold, say).  Fields the harness knows are overwritten afterwards."""
    made = []
    for obj, tag in ((c.stats, 'stats'), (c, 'conn')):
        for name in dir(obj):
            if name.startswith('_') or name in skip:
                continue
            try:
                val = getattr(obj, name)
            except Exception:
                continue
            if type(val) is int and val == 0:
                setattr(obj, name, symint('%s_%s' % (tag, name), 0, 2 ** 31))
                made.append((tag, name))
    return made


def snapshot(c):
    """semantic state of a connection (DESIGN §6.0): everything but the statistics counters"""
    return dict(
        key=c.session_key_bytes, status=c.status, last_recv_time=c.last_recv_time,
        pkt_cur=c.bitfield_pkt.current_seqnum, pkt_bits=c.bitfield_pkt.bits,
        msg_cur=c.bitfield_msg.current_seqnum, msg_bits=c.bitfield_msg.bits,
        incoming=list(c.incoming_messages), outgoing=list(c.outgoing_messages),
        pending_acks=list(c.pending_acks.items()), pending_callbacks=[(k, list(v)) for k, v in c.pending_callbacks.items()],
        pending_retry=[(k, list(v)) for k, v in c.pending_retry.items()], pending_retry_msg=list(c.pending_retry_msg.items()),
        received_fragments=[(k, list(v.fragments)) for k, v in c.received_fragments.items()],
        seq_sending=c.seq_sending, seq_message=c.seq_message, seq_fragment=c.seq_fragment,
        token=getattr(c, 'token', None), salt=getattr(c, 'session_salt', None),
        latency=c.latency,
    )


def same(a, b):
    """-> bool / SxBool: two snapshot values equal"""
    if a is b:
        return True
    if isinstance(a, (list, tuple)):
        if not isinstance(b, (list, tuple)) or len(a) != len(b):
            return False
        return And(*[same(x, y) for x, y in zip(a, b)])
    if a is None or b is None:
        return False
    if isinstance(a, (conn.PendingMessage,)) or callable(a):
        return a is b
    if hasattr(a, 'value') and hasattr(a, '_value2name'):
        return hasattr(b, 'value') and same(a.value, b.value)
    r = (a == b)
    return False if r is NotImplemented else r


def unchanged(before, after, skip=()):
    conds = []
    names = []
    for k in before:
        if k in skip:
            continue
        conds.append(same(before[k], after[k]))
        names.append(k)
    return And(*conds), names


# ------------------------------------------------------------------ message gate (shared by C07 L7.4 and C08 L8.7)
def msg_gate_world(elo, ehi, fragment=False):
    """receiver with an arbitrary 256-bit message window; a fresh genuine datagram carries one message whose
    message seq lies e behind the newest message seen (e < 0: newer).  -> (rx, ok, e, seen_in_window, y)"""
    clock = clock_at(100.0)
    rx = mk_base(server=True, clock=clock)
    tx = mk_base(server=False, clock=clock)
    cur = symint('msg_cur', 1, 65535)
    bits = core.symbv('msg_bits', 256)
    rx.bitfield_msg.current_seqnum = SeqNum(cur)
    rx.bitfield_msg.bits = bits
    e = symint('e', elo, ehi)
    y = SeqNum(cur) + (-e)
    tx.seq_sending = SeqNum(symint('pkt_seq', 1, 65534))
    tx.seq_message = y - 1
    payload, L = rope.blob('p', 0, 100)
    if fragment:
        tx._send_type(PacketType.APP_FRAGMENT, conn.struct.pack('>HHH', 3, 1, 1) + payload, RetryMode.NONE, None)
    else:
        tx.send(payload, RetryMode.NONE, None)
    pkt = tx._build_packet_impl(100.0, False, 0.1)
    raw = tx._encode_packet(pkt)
    hdr = PacketHeader.from_bytes(True, raw)
    if bool(e < 0):
        seen = False
    elif bool(e == 0):
        seen = True
    elif bool(e <= 256):
        z = bits.z if isinstance(bits, SxInt) and bits.z is not None else None
        k = 256 - core.concrete(e, cap=300)
        seen = SxBool(z3.Extract(k, k, z) == 1) if z is not None else bool((int(bits) >> k) & 1)
    else:
        seen = None         # older than the window: the window cannot tell
    ok = rx._recv_datagram(hdr, raw)
    return rx, ok, e, seen, y, payload


def replay_msg_gate(m, fragment=False):
    """API-level: the window state is reached by delivering its members oldest first, then the message at offset e
    arrives in a fresh datagram.  -> (accepted, delivered count, received before)"""
    from .common import real
    c = real('mpgameserver.connection')
    cur, bits, e = m['msg_cur'], m['msg_bits'], m['e']
    now = [100.0]
    tx = c.ConnectionBase(False, ('p', 1))
    rx = c.ConnectionBase(True, ('p', 1))
    for z in (tx, rx):
        z.status = c.ConnectionStatus.CONNECTED
        z.session_key_bytes = KEY
        z.clock = lambda: now[0]
    members = [int(c.SeqNum(cur) + (-k)) for k in range(256, 0, -1) if (bits >> (256 - k)) & 1] + [cur]

    def ship(mseq, body, frag=False):
        tx.seq_message = c.SeqNum(mseq) - 1
        if frag:
            import struct
            tx._send_type(c.PacketType.APP_FRAGMENT, struct.pack('>HHH', 3, 1, 1) + body, c.RetryMode.NONE, None)
        else:
            tx.send(body)
        pkt = tx._build_packet_impl(now[0], False, 0.1)
        raw = tx._encode_packet(pkt)
        now[0] += 0.001
        return rx._recv_datagram(c.PacketHeader.from_bytes(True, raw), raw)
    for s_ in members:
        ship(s_, b'w')
    if rx.bitfield_msg.bits != bits or int(rx.bitfield_msg.current_seqnum) != cur:
        return None
    y = int(c.SeqNum(cur) + (-e))
    before = y in members
    n0, f0 = len(rx.incoming_messages), len(rx.received_fragments)
    ok = ship(y, b'the message', fragment)
    got = (len(rx.incoming_messages) - n0) + (len(rx.received_fragments) - f0)
    return ok, got, before


# ------------------------------------------------------------------ a real handshake (no state is set by hand)
def honest_handshake(clock, step=0.05):
    """client object and server-side object taken through the real three-datagram handshake at clock, clock+step,
    clock+2*step.  -> (client connection, server-side connection, ctxt, handler, connect callback recorder)"""
    handler = Handler()
    root = new_key('root')
    ctxt = ctx_mod.ServerContext(handler, root)
    cl = conn.ClientServerConnection(('srv', 9))
    cl.clock = clock
    cl.setServerPublicKey(root.getPublicKey())
    cb = Rec('connect')
    cl.connection_callback = cb
    addr = ('cli', 7)
    sv = conn.ServerClientConnection(ctxt, addr)
    sv.clock = clock
    ctxt.temp_connections[addr] = sv
    cl._sendClientHello()
    d1 = cl._encode_packet(cl._build_packet())
    sv._recv_datagram(PacketHeader.from_bytes(True, d1), d1)
    clock.advance(step)
    d2 = sv._encode_packet(sv._build_packet())
    cl._recv_datagram(PacketHeader.from_bytes(False, d2), d2)
    clock.advance(step)
    d3 = cl._encode_packet(cl._build_packet())
    sv._recv_datagram(PacketHeader.from_bytes(True, d3), d3)
    return cl, sv, ctxt, handler, cb


# ------------------------------------------------------------------ MTU with a history
def set_mtu(name='mtu', lo=512, hi=1500):
    """Packet.setMTU(mtu) for an arbitrary mtu, optionally after an earlier setMTU call with another arbitrary value:
    the class constants must depend on the last call only.  -> the SxInt mtu"""
    if bool(symbool(name + '_set_before')):
        Packet.setMTU(symint(name + '_before', lo, hi))
    mtu = symint(name, lo, hi)
    Packet.setMTU(mtu)
    return mtu


def replay_set_mtu(c, m, name='mtu'):
    if m.get(name + '_set_before'):
        c.Packet.setMTU(m.get(name + '_before', 1500))
    c.Packet.setMTU(m.get(name, 1500))
