"""Shared scaffolding for property modules: lemma registry, replay helpers, known findings."""
import functools
import importlib
import json
import os
import sys

VERIF = os.path.dirname(os.path.dirname(os.path.abspath(__file__)))
REPO = os.environ.get('VERIF_REPO', '/repo')


class Lemma:
    def __init__(self, lid, prop, func, instances, replay=None, desc='', expect=(), bounds='',
                 step_limit=2_000_000, path_cap=200_000, api=False):
        self.id = lid
        self.prop = prop
        self.func = func
        self._instances = instances
        self.replay = replay
        self.desc = desc
        self.expect = tuple(expect)      # check labels that must be reached (vacuity guard)
        self.bounds = bounds
        self.step_limit = step_limit
        self.path_cap = path_cap
        # api=True: the harness drives the code only through constructors, documented calls and protocol entry points
        # (no internal state is injected by hand).  Only then is a crash of the code under check that reproduces with the
        # same exception type on the real package reported as a violation; for state-injecting step lemmas such a crash
        # may equally mean that a representation changed under the harness, and stays inconclusive.
        self.api = api

    def instances(self, tier):
        inst = self._instances
        if callable(inst):
            inst = inst(tier)
        return list(inst)


class Registry:
    def __init__(self, prop):
        self.prop = prop
        self.lemmas = {}
        self._tier = None
        self._keys = None

    def add(self, lid, func, instances, **kw):
        self.lemmas[lid] = Lemma(lid, self.prop, func, instances, **kw)
        return self.lemmas[lid]

    def lemma(self, lid, instances=({},), **kw):
        def deco(f):
            self.add(lid, f, instances, **kw)
            return f
        return deco

    def keys(self, tier):
        out = []
        for lid, lem in self.lemmas.items():
            for i, cfg in enumerate(lem.instances(tier)):
                out.append((lid, i, tier))
        return out

    def cfg(self, key):
        lid, i, tier = key
        return self.lemmas[lid].instances(tier)[i]

    def get_harness(self, key):
        lid, i, tier = key
        lem = self.lemmas[lid]
        cfg = lem.instances(tier)[i]
        return functools.partial(lem.func, **cfg)


# ------------------------------------------------------------------ the real package (replay)
_real = {}


def real(modname='mpgameserver'):
    """import the *uninstrumented* package from $VERIF_REPO for replay drivers"""
    if REPO not in sys.path:
        sys.path.insert(0, REPO)
    if modname not in _real:
        _real[modname] = importlib.import_module(modname)
        f = getattr(_real[modname], '__file__', '') or ''
        if modname.startswith('mpgameserver') and not f.startswith(REPO):
            raise RuntimeError('real package imported from %s, expected under %s' % (f, REPO))
    return _real[modname]


# ------------------------------------------------------------------ known findings
_kf = None


def known_findings():
    global _kf
    if _kf is None:
        p = os.path.join(VERIF, 'known_findings.json')
        _kf = json.load(open(p)) if os.path.exists(p) else {'findings': []}
    return _kf['findings']


def open_findings(prop, lemma=None):
    return [f for f in known_findings()
            if f.get('property') == prop and f.get('status') == 'open' and (lemma is None or f.get('lemma') == lemma)]


def exclude_known(lemma_id, prop, env):
    """assume(not region) for every open known finding of this lemma whose witness still
    reproduces (decided once per run by the driver and passed via SX_KF_ACTIVE)"""
    from sx import core
    active = set(filter(None, os.environ.get('SX_KF_ACTIVE', '').split(',')))
    for f in open_findings(prop, lemma_id):
        if f['id'] not in active:
            continue
        region = eval(f['region'], {'And': core.And, 'Or': core.Or, 'Not': core.Not}, dict(env))
        core.assume(core.Not(region))


# ------------------------------------------------------------------ generic replay
def _real_of(val):
    """map an object that lives in an instrumented (sxm.*) module to its counterpart in the real package"""
    import types
    mod = getattr(val, '__module__', None)
    if isinstance(val, types.ModuleType):
        if val.__name__.startswith('sxm.'):
            return real('mpgameserver.' + val.__name__.split('.', 1)[1])
        return None
    if isinstance(val, type) or isinstance(val, types.FunctionType):
        if isinstance(mod, str) and mod.startswith('sxm.') and '.' not in getattr(val, '__qualname__', '.'):
            rm = real('mpgameserver.' + mod.split('.', 1)[1])
            return getattr(rm, val.__name__, None)
        return None
    cls = type(val)
    cmod = getattr(cls, '__module__', '')
    if isinstance(cmod, str) and cmod.startswith('sxm.') and hasattr(cls, '_value2name') and hasattr(val, 'value'):
        rc = getattr(real('mpgameserver.' + cmod.split('.', 1)[1]), cls.__name__, None)
        if rc is not None:
            try:
                return getattr(rc, cls._value2name[val.value])
            except Exception:
                return None
    return None


def _swap(modules):
    saved = []
    for M in modules:
        for name, val in list(vars(M).items()):
            if name.startswith('__'):
                continue
            new = None
            if isinstance(val, (list, tuple)) and val and all(_real_of(x) is not None for x in val):
                new = type(val)(_real_of(x) for x in val)
            else:
                try:
                    new = _real_of(val)
                except Exception:
                    new = None
            if new is not None:
                saved.append((M, name, val))
                setattr(M, name, new)
    return saved


def generic_replay(func, modules, patches=()):
    """replay driver that re-executes the *same harness* concretely against the uninstrumented package:
    the sx API hands out the recorded model values, module references are swapped to the real modules,
    the package's clock is the harness clock.  Reproduced <=> some obligation fails in that run."""
    def replay(cfg, model):
        import time as _time
        from sx import core
        from sx.models import env_m
        saved = _swap(modules)
        eng = core.ReplayEngine(model)
        prev = core.Engine.cur
        core.Engine.cur = eng
        real_time = _time.time
        _time.time = lambda: env_m.clock()()
        rc = real('mpgameserver.connection')
        patched = []
        for modname, attr, value in patches:
            rm = real(modname)
            patched.append((rm, attr, getattr(rm, attr)))
            setattr(rm, attr, value)
        try:
            try:
                func(**cfg)
            except core.ReplayAbort as x:
                return False, 'replay aborted: %s' % x
            except core.SxControl as x:
                return False, 'replay left the concrete fragment: %r' % (x,)
            except Exception as x:
                import traceback
                if eng.failures:
                    # an obligation already failed in this concrete run; the harness then tripped over the consequences
                    return True, 'concrete re-execution on the real package fails: %s (then %s)' % (
                        '; '.join(sorted(set(eng.failures))[:3]), type(x).__name__)
                return False, 'harness raised in replay: %s' % traceback.format_exc()[-600:]
        finally:
            _time.time = real_time
            for rm, attr, old in patched:
                setattr(rm, attr, old)
            core.Engine.cur = prev
            for M, name, val in saved:
                setattr(M, name, val)
            try:
                rc.Packet.setMTU(1500)
            except Exception:
                pass
        if eng.failures:
            return True, 'concrete re-execution on the real package fails: %s' % '; '.join(sorted(set(eng.failures))[:3])
        return False, 'all %d obligations hold in the concrete re-execution' % eng.checks
    return replay
