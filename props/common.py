"""Shared scaffolding for property modules: lemma registry, replay helpers, known findings."""
import functools
import importlib
import json
import os
import sys

VERIF = os.path.dirname(os.path.dirname(os.path.abspath(__file__)))
REPO = os.environ.get('VERIF_REPO', '/repo')


class Lemma:
    def __init__(self, lid, prop, func, instances, replay=None, desc='', expect=(), bounds='',
                 step_limit=2_000_000, path_cap=200_000):
        self.id = lid
        self.prop = prop
        self.func = func
        self._instances = instances
        self.replay = replay
        self.desc = desc
        self.expect = tuple(expect)      # check labels that must be reached (vacuity guard)
        self.bounds = bounds
        self.step_limit = step_limit
        self.path_cap = path_cap

    def instances(self, tier):
        inst = self._instances
        if callable(inst):
            inst = inst(tier)
        return list(inst)


class Registry:
    def __init__(self, prop):
        self.prop = prop
        self.lemmas = {}
        self._tier = None
        self._keys = None

    def add(self, lid, func, instances, **kw):
        self.lemmas[lid] = Lemma(lid, self.prop, func, instances, **kw)
        return self.lemmas[lid]

    def lemma(self, lid, instances=({},), **kw):
        def deco(f):
            self.add(lid, f, instances, **kw)
            return f
        return deco

    def keys(self, tier):
        out = []
        for lid, lem in self.lemmas.items():
            for i, cfg in enumerate(lem.instances(tier)):
                out.append((lid, i, tier))
        return out

    def cfg(self, key):
        lid, i, tier = key
        return self.lemmas[lid].instances(tier)[i]

    def get_harness(self, key):
        lid, i, tier = key
        lem = self.lemmas[lid]
        cfg = lem.instances(tier)[i]
        return functools.partial(lem.func, **cfg)


# ------------------------------------------------------------------ the real package (replay)
_real = {}


def real(modname='mpgameserver'):
    """import the *uninstrumented* package from $VERIF_REPO for replay drivers"""
    if REPO not in sys.path:
        sys.path.insert(0, REPO)
    if modname not in _real:
        _real[modname] = importlib.import_module(modname)
        f = getattr(_real[modname], '__file__', '') or ''
        if modname.startswith('mpgameserver') and not f.startswith(REPO):
            raise RuntimeError('real package imported from %s, expected under %s' % (f, REPO))
    return _real[modname]


# ------------------------------------------------------------------ known findings
_kf = None


def known_findings():
    global _kf
    if _kf is None:
        p = os.path.join(VERIF, 'known_findings.json')
        _kf = json.load(open(p)) if os.path.exists(p) else {'findings': []}
    return _kf['findings']


def open_findings(prop, lemma=None):
    return [f for f in known_findings()
            if f.get('property') == prop and f.get('status') == 'open' and (lemma is None or f.get('lemma') == lemma)]


def exclude_known(lemma_id, prop, env):
    """assume(not region) for every open known finding of this lemma whose witness still
    reproduces (decided once per run by the driver and passed via SX_KF_ACTIVE)"""
    from sx import core
    active = set(filter(None, os.environ.get('SX_KF_ACTIVE', '').split(',')))
    for f in open_findings(prop, lemma_id):
        if f['id'] not in active:
            continue
        region = eval(f['region'], {'And': core.And, 'Or': core.Or, 'Not': core.Not}, dict(env))
        core.assume(core.Not(region))
