"""C08 - sequence-number ring and receive-window bookkeeping are exact.

Lemmas (DESIGN §6 C08): L8.1 ring add/sub, L8.2 diff, L8.3 ordering, L8.4 window step with a
ghost receive set (uninterpreted recv(offset)), L8.5 ack / ack_bits naming.
All run the real SeqNum / BitField / ConnectionBase source under sx.
"""
import z3

import sx
from sx import core, loader
from sx.core import (symint, symbv, symbool, check, assume, choose, SxInt, SxBool, E, reach, ite, And, Or, Not, Iff)
from .common import Registry, real, generic_replay

conn = sx.load('connection')
SeqNum = conn.SeqNum
BitField = conn.BitField
Dup = conn.DuplicationError
MAXSEQ = 65535

R = Registry('C08')


def ring(v):
    """reference: representative of v in 1..65535 (mod 65535)"""
    return ((v - 1) % MAXSEQ) + 1


# ------------------------------------------------------------------ L8.1
def l81():
    a = symint('a', 0, MAXSEQ)
    k = symint('k', -(MAXSEQ - 1), MAXSEQ - 1)
    r = SeqNum(a) + k
    check(And(r >= 1, r <= MAXSEQ), 'add stays in 1..65535')
    check(r == ring(a + k), 'add is addition mod 65535')
    assume(a >= 1)
    r2 = SeqNum(a) - k
    check(And(r2 >= 1, r2 <= MAXSEQ), 'sub stays in 1..65535')
    check(r2 == ring(a - k), 'sub is subtraction mod 65535')
    check(isinstance(r, SeqNum) and isinstance(r2, SeqNum), 'result type')


def l81_succ():
    a = symint('a', 0, MAXSEQ)
    s = SeqNum(a)
    s += 1
    check(s != 0, 'successor never 0')
    check(s == ite(a == MAXSEQ, 1, a + 1), 'successor is +1 with wrap to 1')


def l81_ctor():
    v = symint('v', -200000, 200000)
    try:
        s = SeqNum(v)
        ok = True
    except ValueError:
        ok = False
    check(core.Iff(And(v >= 0, v <= MAXSEQ), ok), 'constructor range check')
    if ok:
        check(s == v, 'constructor keeps value')


def replay_l81(cfg, m):
    c = real('mpgameserver.connection')
    a, k = m.get('a'), m.get('k')
    if a is None or k is None:
        return False, 'no model'
    try:
        r = c.SeqNum(a) + k
        bad = not (1 <= int(r) <= MAXSEQ) or int(r) != ((a + k - 1) % MAXSEQ) + 1
        if a >= 1:
            r2 = c.SeqNum(a) - k
            bad = bad or not (1 <= int(r2) <= MAXSEQ) or int(r2) != ((a - k - 1) % MAXSEQ) + 1
    except Exception as e:
        return True, 'raised %r' % e
    return bad, 'a=%d k=%d -> %d' % (a, k, int(r))


R.add('L8.1', l81, [{}], replay=replay_l81, desc='ring add/sub for all a in 0..65535, |k| <= 65534',
      expect=['add stays in 1..65535', 'sub is subtraction mod 65535'])
R.add('L8.1s', l81_succ, [{}], replay=None, desc='successor', expect=['successor never 0'])
R.add('L8.1c', l81_ctor, [{}], replay=None, desc='constructor range', expect=['constructor range check'])


# ------------------------------------------------------------------ L8.2 / L8.3
def l82():
    a = symint('a', 1, MAXSEQ)
    d = symint('d', -32767, 32767)
    A = SeqNum(a)
    B = A + d
    check(B.diff(A) == d, 'diff recovers the offset')
    check(A.diff(B) == -d, 'diff antisymmetric')
    check(core.Iff(B.newer_than(A), d > 0), 'newer_than is sign of offset')
    check(core.Iff(A.newer_than(B), d < 0), 'newer_than (reverse)')
    check(core.Iff(B > A, d > 0), '> is sign of offset')
    check(core.Iff(B < A, d < 0), '< is sign of offset')
    check(core.Iff(A < B, d > 0), '< (reverse)')
    check(core.Iff(A > B, d < 0), '> (reverse)')


def l83_type():
    a = symint('a', 1, MAXSEQ)
    b = symint('b', 1, MAXSEQ)
    A = SeqNum(a)
    for op in ('lt', 'gt'):
        try:
            getattr(A, '__%s__' % op)(b)
            raised = False
        except TypeError:
            raised = True
        check(raised, 'ordering against a plain int raises TypeError')


def replay_l82(cfg, m):
    c = real('mpgameserver.connection')
    a, d = m.get('a'), m.get('d')
    A = c.SeqNum(a)
    B = A + d
    bad = (B.diff(A) != d or A.diff(B) != -d or B.newer_than(A) != (d > 0) or (B > A) != (d > 0)
           or (B < A) != (d < 0) or (A < B) != (d > 0) or (A > B) != (d < 0) or A.newer_than(B) != (d < 0))
    return bad, 'a=%d d=%d B=%d diff=%d' % (a, d, int(B), B.diff(A))


R.add('L8.2', l82, [{}], replay=replay_l82, desc='diff / newer_than / < / > for all a, |d| <= 32767',
      expect=['diff recovers the offset', '< (reverse)'])
def replay_l83t(cfg, m):
    c = real('mpgameserver.connection')
    A = c.SeqNum(m.get('a', 1))
    out = []
    for op in ('__lt__', '__gt__'):
        try:
            getattr(A, op)(int(m.get('b', 1)))
            out.append(op)
        except TypeError:
            pass
    return bool(out), 'SeqNum(%d) %s %d did not raise TypeError' % (m.get('a', 1), '/'.join(out), m.get('b', 1))


R.add('L8.3t', l83_type, [{}], replay=replay_l83t, desc='TypeError for non-SeqNum operand',
      expect=['ordering against a plain int raises TypeError'])


# ------------------------------------------------------------------ L8.4 window step
def bit(bv, i, nb):
    """Bool term: bit i (0 = least significant) of an nb-wide value (SxInt or int)"""
    if isinstance(bv, SxInt) and bv.z is not None:
        z = bv.z
        if not z3.is_bv(z):
            z = z3.Int2BV(z, nb)
        elif z.size() != nb:
            z = z3.Extract(nb - 1, 0, z) if z.size() > nb else z3.ZeroExt(nb - z.size(), z)
        return z3.Extract(i, i, z) == 1
    return z3.BoolVal(bool((int(bv) >> i) & 1))


def l84(nbits, empty=False):
    """ghost receive set over offsets relative to the newest seq: recv(0) (the newest itself),
    recv(-e) <=> window bit (nbits-e) for 1 <= e <= nbits, nothing newer than the newest,
    anything older than the window unknown (free).  The engine case-splits on the shift amount
    inside the real insert/contains, so the offset is concrete wherever a window bit is touched."""
    bf = BitField(nbits)
    if empty:
        x = SeqNum(symint('x', 1, MAXSEQ))
        bf.insert(x)
        check(bf.current_seqnum == x, 'first insert sets the newest seq')
        check(bf.bits == 0, 'first insert leaves the window empty')
        check(bf.contains(x), 'first insert: contains(x)')
        return
    d = symint('d', -32767, 32767)            # diff = cur.diff(x)
    cur = symint('cur', 1, MAXSEQ)
    bits = symbv('bits', nbits)
    bf.current_seqnum = SeqNum(cur)
    bf.bits = bits
    beyond = symbool('recv_beyond_window')    # ghost: was x received if it is older than the window

    def oldrecv(k):
        """ghost membership of offset k (concrete) relative to the OLD newest seq"""
        if k == 0:
            return True
        if k > 0:
            return False
        if k >= -nbits:
            return SxBool(bit(bits, nbits + k, nbits))
        return None     # older than the window: not tracked

    x = SeqNum(cur) + (-d)
    check(cur_diff_ok(SeqNum(cur), x, d), 'harness: x is cur (+) -d')
    contained = bf.contains(x)
    # after contains() the engine has split on the offset wherever a bit was tested
    if bool(d < 0):
        inwin = False
        dc = None
    elif bool(d > nbits):
        inwin = False                         # outside the window (beyond may be anything)
        dc = None
    else:
        dc = core.concrete(d, cap=nbits + 2)
        inwin = oldrecv(-dc)
    check(core.Iff(contained, inwin), 'contains <=> received inside the window')
    raised = False
    try:
        bf.insert(x)
    except Dup:
        raised = True
    check(core.Iff(inwin, raised), 'duplicate flagged <=> received inside the window')
    if raised:
        check(And(bf.current_seqnum == cur, bf.bits == bits), 'a duplicate leaves the window unchanged')
        return
    nb = bf.bits
    check(And(nb >= 0, nb < (1 << nbits)), 'window fits its width')
    if dc is None and bool(d > nbits):
        # older than the window: accepted (C04's concern), window must not change
        check(And(bf.current_seqnum == cur, nb == bits), 'older-than-window insert leaves the window unchanged')
        return
    if dc is not None:
        shift = 0
        off_x = -dc
        check(bf.current_seqnum == cur, 'newest seq is max(cur, x)')
    else:
        # newer: new newest = x
        check(bf.current_seqnum == x, 'newest seq is max(cur, x)')
        if bool(-d > nbits):
            check(nb == 0, 'window bits == ghost set re-based on the new newest seq')
            return
        shift = core.concrete(-d, cap=nbits + 2)
        off_x = shift
    conj = []
    for e_ in range(1, nbits + 1):
        k = shift - e_                         # offset relative to the old newest seq
        want = True if k == off_x and dc is not None else oldrecv(k)
        if dc is None and k == 0:
            want = True                        # the old newest seq itself
        conj.append(core.Iff(SxBool(bit(nb, nbits - e_, nbits)) if core.is_sym(nb) else bool((int(nb) >> (nbits - e_)) & 1), want))
    check(And(*conj), 'window bits == ghost set re-based on the new newest seq')
    check(bf.contains(x), 'inserted seq is contained afterwards')


def cur_diff_ok(cur, x, d):
    return cur.diff(x) == d


def replay_l84(cfg, m):
    c = real('mpgameserver.connection')
    nbits = cfg['nbits']
    if cfg.get('empty'):
        bf = c.BitField(nbits)
        x = c.SeqNum(m['x'])
        bf.insert(x)
        bad = bf.current_seqnum != x or bf.bits != 0 or not bf.contains(x)
        return bad, 'x=%d' % m['x']
    cur, bits, d = m['cur'], m['bits'], m['d']
    bf = c.BitField(nbits)
    # reach the state through the API: insert the window members oldest first, then cur
    received = set()
    for e in range(nbits, 0, -1):
        if (bits >> (nbits - e)) & 1:
            s = c.SeqNum(cur) + (-e)
            bf.insert(s)
            received.add(int(s))
    bf.insert(c.SeqNum(cur))
    received.add(cur)
    if bf.bits != bits or bf.current_seqnum != cur:
        return False, 'state (cur=%d bits=%x) not reached via insert(): got %x' % (cur, bits, bf.bits)
    x = c.SeqNum(cur) + (-d)
    inwin = int(x) in received and 0 <= d <= nbits
    bad = bf.contains(x) != inwin
    try:
        bf.insert(x)
        raised = False
    except c.DuplicationError:
        raised = True
    bad = bad or raised != inwin
    if not raised:
        received.add(int(x))
        newcur = c.SeqNum(cur) + max(-d, 0)
        bad = bad or bf.current_seqnum != newcur
        for e in range(1, nbits + 1):
            s = int(newcur + (-e))
            want = s in received
            got = bool((bf.bits >> (nbits - e)) & 1)
            if want != got:
                bad = True
    return bad, 'nbits=%d cur=%d bits=%x d=%d raised=%s' % (nbits, cur, bits, d, raised)


def l84_instances(tier):
    widths = [8, 32, 256] if tier == 'quick' else list(range(8, 257, 8))
    out = [dict(nbits=w) for w in widths]
    out += [dict(nbits=w, empty=True) for w in ([32, 256] if tier == 'quick' else widths)]
    return out


R.add('L8.4', l84, l84_instances, replay=replay_l84,
      desc='BitField.insert/contains one step from an arbitrary window state vs ghost receive set',
      expect=['duplicate flagged <=> received inside the window',
              'window bits == ghost set re-based on the new newest seq'],
      bounds='cur in 1..65535, bits arbitrary, offset in -32767..32767, widths 8..256')


# ------------------------------------------------------------------ L8.5 ack fields
class _Rec:
    def __init__(self):
        self.calls = []

    def __call__(self, ok):
        self.calls.append(ok)


def l85():
    """receiver window (cur, bits) -> header built by the real _build_packet_impl -> sender with a
    pending datagram s runs the real _handle_ack_bits: acked <=> s received among the newest 33"""
    e = E()
    e.shift_mode = 'term'
    recv = z3.Function('recv', z3.IntSort(), z3.BoolSort())
    rx = conn.ConnectionBase(True, ('r', 1))
    rx.status = conn.ConnectionStatus.CONNECTED
    cur = symint('cur', 1, MAXSEQ)
    bits = symbv('bits', 32)
    rx.bitfield_pkt.current_seqnum = SeqNum(cur)
    rx.bitfield_pkt.bits = bits
    e.add(recv(0))
    for i in range(32):
        e.add(bit(bits, 31 - i, 32) == recv(-1 - i))
    rx.clock = lambda: 100.0
    pkt = rx._build_packet_impl(100.0, True, 0.1)
    check(pkt is not None, 'keep-alive built')
    hdr = pkt.hdr
    check(And(hdr.ack == cur, hdr.ack_bits == bits), 'header carries newest seq and window bits')
    # through the wire format
    raw = hdr.to_bytes()
    hdr2 = conn.PacketHeader.from_bytes(False, raw)
    check(And(hdr2.ack == cur, hdr2.ack_bits == bits), 'ack fields survive the wire format')
    # sender side
    tx = conn.ConnectionBase(False, ('t', 1))
    tx.clock = lambda: 100.0
    tx.last_recv_time = 100.0
    d = symint('d', -32767, 32767)          # cur.diff(s)
    s = SeqNum(cur) + (-d)
    tx.pending_acks[s] = 99.5               # not old enough to time out
    rec = _Rec()
    tx.pending_callbacks[s] = [rec]
    tx._handle_ack_bits(hdr2)
    dz = core.int_term(d)
    named = SxBool(z3.And(recv(-dz), dz >= 0, dz <= 32))
    acked = (len(rec.calls) == 1 and rec.calls[0] is True)
    check(core.Iff(named, acked), 'acked <=> received among the newest 33 datagrams')
    check(core.Iff(named, s not in tx.pending_acks), 'pending entry removed <=> acked')
    check(len(rec.calls) <= 1, 'callback at most once')


def replay_l85(cfg, m):
    c = real('mpgameserver.connection')
    cur, bits, d = m['cur'], m['bits'], m['d']
    hdr = c.PacketHeader.create(True, 100, c.PacketType.KEEP_ALIVE, c.SeqNum(1), c.SeqNum(cur), bits)
    hdr = c.PacketHeader.from_bytes(False, hdr.to_bytes())
    tx = c.ConnectionBase(False, ('t', 1))
    tx.clock = lambda: 100.0
    tx.last_recv_time = 100.0
    s = c.SeqNum(cur) + (-d)
    tx.pending_acks[s] = 99.5
    calls = []
    tx.pending_callbacks[s] = [calls.append]
    tx._handle_ack_bits(hdr)
    named = d == 0 or (1 <= d <= 32 and bool((bits >> (32 - d)) & 1))
    acked = calls == [True]
    return named != acked or ((s not in tx.pending_acks) != named), 'cur=%d bits=%x d=%d acked=%s' % (cur, bits, d, acked)


R.add('L8.5', l85, [{}], replay=replay_l85, desc='ack/ack_bits name exactly the received datagrams among the newest 33',
      expect=['acked <=> received among the newest 33 datagrams'])



# ------------------------------------------------------------------ L8.6 the datagram gate agrees with the window
def l86():
    """_recv_datagram on a genuine datagram at any offset up to the window edge, from an arbitrary window:
    accepted exactly when it was not received before (older than the window is C04's concern)"""
    from . import proto
    e = E()
    clock = proto.clock_at(100.0)
    rx = proto.mk_base(server=True, clock=clock)
    tx = proto.mk_base(server=False, clock=clock)
    cur = symint('cur', 1, MAXSEQ)
    bits = symbv('bits', 32)
    rx.bitfield_pkt.current_seqnum = SeqNum(cur)
    rx.bitfield_pkt.bits = bits
    d = symint('d', -32767, 32)
    x = SeqNum(cur) + (-d)
    tx.seq_sending = x - 1
    tx.send(b'm', conn.RetryMode.NONE, None)
    pkt = tx._build_packet_impl(100.0, False, 0.1)
    raw = tx._encode_packet(pkt)
    hdr = conn.PacketHeader.from_bytes(True, raw)
    if bool(d < 0):
        seen = False
    elif bool(d == 0):
        seen = True
    else:
        seen = SxBool(bit(bits, 32 - core.concrete(d, cap=40), 32))
    if bool(symbool('damaged_copy_first')):
        # a copy of the datagram whose body was damaged on the way (same clear-text header, ciphertext replaced) arrives
        # first: it is not "received" - the window names only datagrams that were accepted
        from sx import rope as _rope
        junk, jl = _rope.blob('junk', 0, None)
        assume(jl == _rope.sx_len(raw) - 20)
        bad = raw[:20] + junk
        w0 = (rx.bitfield_pkt.current_seqnum, rx.bitfield_pkt.bits)
        okb = rx._recv_datagram(conn.PacketHeader.from_bytes(True, bad), bad)
        check(okb is not True, 'a damaged copy is not accepted')
        check(And(rx.bitfield_pkt.current_seqnum == w0[0], rx.bitfield_pkt.bits == w0[1]),
              'a datagram that was not accepted is not recorded in the window (acks name only received datagrams)')
    ok = rx._recv_datagram(hdr, raw)
    check(core.Iff(ok is True, Not(seen)), 'a genuine datagram inside the window is accepted exactly when it was not received before')
    if ok is True:
        check(rx.bitfield_pkt.contains(x), 'an accepted datagram is recorded in the window')
        newest = SeqNum(cur) + SxInt.wrap(z3.If(core.int_term(d) < 0, -core.int_term(d), 0))
        check(rx.bitfield_pkt.current_seqnum == newest, 'the ack number is the newest datagram received')


def replay_l86(cfg, m):
    c = real('mpgameserver.connection')
    cur, bits, d = m['cur'], m['bits'], m['d']
    now = [100.0]
    tx = c.ConnectionBase(False, ('p', 1))
    rx = c.ConnectionBase(True, ('p', 1))
    for z in (tx, rx):
        z.status = c.ConnectionStatus.CONNECTED
        z.session_key_bytes = b'K' * 16
        z.clock = lambda: now[0]
    # reach the window through the API: deliver the members oldest first, then cur
    seqs = [int(c.SeqNum(cur) + (-e_)) for e_ in range(32, 0, -1) if (bits >> (32 - e_)) & 1] + [cur]

    def ship(seqn):
        tx.seq_sending = c.SeqNum(seqn) - 1
        tx.send(b'm')
        pkt = tx._build_packet_impl(now[0], False, 0.1)
        raw = tx._encode_packet(pkt)
        return rx._recv_datagram(c.PacketHeader.from_bytes(True, raw), raw)
    for s_ in seqs:
        ship(s_)
    if rx.bitfield_pkt.bits != bits or rx.bitfield_pkt.current_seqnum != cur:
        return False, 'window state not reached through the API'
    x = int(c.SeqNum(cur) + (-d))
    seen = x in seqs
    note = ''
    if m.get('damaged_copy_first'):
        tx.seq_sending = c.SeqNum(x) - 1
        tx.send(b'm')
        raw = tx._encode_packet(tx._build_packet_impl(now[0], False, 0.1))
        bad = raw[:20] + bytes(b ^ 0x5a for b in raw[20:])
        w0 = (int(rx.bitfield_pkt.current_seqnum), rx.bitfield_pkt.bits)
        okb = rx._recv_datagram(c.PacketHeader.from_bytes(True, bad), bad)
        moved = (int(rx.bitfield_pkt.current_seqnum), rx.bitfield_pkt.bits) != w0
        ok = rx._recv_datagram(c.PacketHeader.from_bytes(True, raw), raw)
        return okb is True or moved or (ok is True) != (not seen), 'cur=%d bits=%08x d=%d: damaged copy first: accepted=%s window moved=%s; genuine accepted=%s, received before=%s' % (
            cur, bits, d, okb, moved, ok, seen)
    ok = ship(x)
    return (ok is True) != (not seen), 'cur=%d bits=%08x d=%d: accepted=%s, received before=%s' % (cur, bits, d, ok, seen)


R.add('L8.6', l86, [{}], replay=replay_l86,
      desc='_recv_datagram gate: genuine datagram at offset -32767..32 from an arbitrary window: accepted <=> not received before',
      expect=['a genuine datagram inside the window is accepted exactly when it was not received before'])


# ------------------------------------------------------------------ L8.7 the message gate agrees with the window
def l87(fragment):
    """_recv_message behind a fresh genuine datagram, message seq at any offset up to the window edge from an
    arbitrary 256-bit window: flagged duplicate (not delivered) exactly when it was received before.  Messages
    older than the window are outside this clause (C04/C07 constrain them)."""
    from . import proto
    rx, ok, e_, seen, y, payload = proto.msg_gate_world(-32767, 32767, fragment)
    check(ok is True, 'the fresh datagram is accepted')
    got = (len(rx.incoming_messages) + len(rx.received_fragments)) == 1
    if seen is None:
        # older than the window: it was not "already received inside the window"; in particular a message that was
        # never received at all (every window state has such a history) must not be flagged duplicate
        check(got, 'a never-received message older than the window is not flagged duplicate')
        return
    check(core.Iff(got, Not(seen)), 'a message inside the window is delivered exactly when it was not received before')
    check(rx.bitfield_msg.contains(y), 'the message seq is recorded in the window afterwards')


def replay_l87(cfg, m):
    from . import proto
    r = proto.replay_msg_gate(m, cfg['fragment'])
    if r is None:
        return False, 'window state not reached through the API'
    ok, got, before = r
    return (got == 1) != (not before) or ok is not True, \
        'msg_cur=%d e=%d: datagram accepted=%s, message delivered %d time(s), received before=%s' % (m['msg_cur'], m['e'], ok, got, before)


R.add('L8.7', l87, [dict(fragment=False), dict(fragment=True)], replay=replay_l87,
      desc='message gate: a fresh genuine datagram carrying a message (APP / APP_FRAGMENT) at offset -32767..32767 from an '
           'arbitrary 256-bit message window: inside the window delivered <=> not received before; older than the window '
           '(never received): not flagged duplicate',
      expect=['a message inside the window is delivered exactly when it was not received before',
              'a never-received message older than the window is not flagged duplicate'],
      bounds='all 65535 window positions, all 2^256 window contents, offsets -32767..32767; payload <= 100 opaque bytes')

# ------------------------------------------------------------------ L8.8 the window through its API only
def l88(nbits, n):
    """BitField(nbits) from its constructor, n insertions of sequence numbers near a base (any order, gaps, repeats,
    across the wrap), nothing injected: every insert() is refused exactly when that number was received
    before and lies inside the window, and contains() agrees.  Complements L8.4 (arbitrary injected state), which cannot
    see a window whose *representation* differs from the one the harness writes."""
    bf = conn.BitField(nbits)
    # finite domain, enumerated through engine decisions (as in C20): representative offsets around every boundary of
    # the window (0, 1, 2, the 32-entry mark, nbits-1, nbits, nbits+1, beyond, and their negatives) and bases at both
    # ends of the ring
    offs = sorted({0, 1, 2, 31, 32, 33, 40, nbits - 1, nbits, nbits + 1, nbits + 30, -1, -2, -32, -33, -nbits, -(nbits + 1)})
    base = [1, 300, MAXSEQ - 300, MAXSEQ][choose(4, 'base')]
    received = []                 # offsets (plain ints relative to base) accepted so far
    cur = None
    for i in range(n):
        off = offs[choose(len(offs), 'off%d' % i)]
        x = SeqNum(base) + off
        if cur is None:
            inside_dup = False
        else:
            dist = cur - off
            was = Or(*[off == r for r in received]) if received else False
            inside_dup = And(was, dist >= 0, dist <= nbits)
        try:
            bf.insert(x)
            refused = False
        except conn.DuplicationError:
            refused = True
        check(Iff(refused, inside_dup), 'insert() is refused exactly when the number was received before inside the window', step=i)
        if not refused:
            received.append(off)
            if cur is None or bool(off > cur):
                cur = off
        # contains() for everything accepted so far that is still inside the window
        for r in received:
            d = cur - r
            if bool(And(d >= 0, d <= nbits)):
                check(bf.contains(SeqNum(base) + r), 'contains() knows every number received inside the window', step=i)


R.add('L8.8', l88, lambda tier: [dict(nbits=w, n=3) for w in ((8, 32, 256) if tier == 'quick' else (8, 16, 32, 64, 128, 256))],
      desc='BitField built through its API only: 3 insertions at representative offsets around every window boundary, bases at both ends of the ring: '
           'refused <=> received before inside the window; contains() agrees',
      expect=['insert() is refused exactly when the number was received before inside the window',
              'contains() knows every number received inside the window'],
      bounds='widths 8 / 32 / 256 (thorough also 16 / 64 / 128); 3 insertions; 17 representative offsets x 4 bases (finite domain, enumerated)')

# ------------------------------------------------------------------ L8.9 sequence arithmetic outside SeqNum: retransmitted fragments
# code that recomputes a sequence number (instead of storing it) must use the ring's arithmetic: same harness as C06 L6.4,
# message counter anywhere on the ring
from . import c06 as _c06  # noqa: E402

R.add('L8.9', _c06.l64, [dict(maxfrag=3)], replay=_c06.replay_l64,
      desc='a fragmented send started with the message counter anywhere on the ring (also right before the wrap): a timed-out '
           'fragment is re-queued under exactly the message sequence number it was first sent under',
      expect=['re-sent fragment keeps the message sequence number it was first sent under (ring arithmetic, also across the wrap)'],
      bounds='<= 3 fragments; message counter before the send any value 1..65535')

for _lid in ['L8.1', 'L8.1s', 'L8.1c', 'L8.2', 'L8.3t', 'L8.8']:
    if _lid in R.lemmas:
        R.lemmas[_lid].api = True

import sys as _sys  # noqa: E402
R.lemmas['L8.8'].replay = generic_replay(l88, [_sys.modules[__name__]])

get_harness = R.get_harness
