"""C19 - password hashing: the right password verifies, every other one does not.

Only the data flow around the primitives is decidable: SHA-256 and scrypt are uninterpreted
functions, os.urandom returns arbitrary bytes, base64 is an invertible opaque encoding.
L19.1 right password verifies; L19.2 another password verifies iff the KDF collides (False under the
collision-freedom assumption); L19.3 each hash draws and embeds its own fresh salt; L19.4 malformed
hash strings: outcomes are False / ValueError / TypeError, True only if the four fields decode and
derive matches.
"""
import z3

import sx
from sx import core, rope, text
from sx.core import check, assume, choose, symbool, symint, SxBool, E, And, Or, Not
from .common import Registry, real

auth = sx.load('auth')
Auth = auth.Auth
R = Registry('C19')
ASSUMPTIONS = ['SHA-256 and scrypt are uninterpreted functions (same arguments -> same result); L19.2 additionally assumes '
               'they are collision free on distinct inputs', 'os.urandom returns arbitrary bytes',
               'base64: b64decode(b64encode(x)) == x, output contains no ":"; b64decode of other text raises binascii.Error or '
               'returns arbitrary bytes']


def l191():
    p, L = rope.blob('password', 0, None)
    h = Auth.hash_password(p)
    check(isinstance(h, auth.__builtins__['str']), 'hash_password returns str')
    check(text.starts(h, 'scrypt:1:'), 'hash string starts with method and version')
    ok = Auth.verify_password(p, h)
    check(ok is True, 'verify_password(p, hash_password(p)) is True')
    e = E()
    check(len(e.tags.get('kdf_verified', [])) == 1, 'the KDF comparison is what decided')
    sp = e.tags['scrypt_params']
    check(len(sp) == 2, 'one KDF call per hash/verify')
    check(And(rope.rope_eq(sp[0]['salt'], sp[1]['salt']), sp[0]['length'] == sp[1]['length'], sp[0]['n'] == sp[1]['n'],
              sp[0]['r'] == sp[1]['r'], sp[0]['p'] == sp[1]['p']), 'verify uses the salt and parameters stored in the hash')
    check(And(sp[0]['n'] == 16384, sp[0]['r'] == 16, sp[0]['p'] == 1, sp[0]['length'] == 24), 'documented scrypt parameters')


def replay_l191(cfg, m):
    import os
    a = real('mpgameserver.auth')
    import unittest.mock as um
    from cryptography.hazmat.primitives.kdf import scrypt as sc
    orig = sc.Scrypt

    def fast(salt, length, n, r, p, backend=None):
        return orig(salt, length, 2 if n == 16384 else n, 1 if r == 16 else r, p)   # same data flow, cheap parameters
    pw = os.urandom(min(m.get('password_len', 0), 64))
    with um.patch.object(a.scrypt, 'Scrypt', fast):
        h = a.Auth.hash_password(pw)
        ok = a.Auth.verify_password(pw, h)
    return ok is not True, 'verify=%r' % ok


R.add('L19.1', l191, [{}], replay=replay_l191, desc='right password verifies; verify re-uses salt/parameters from the hash string',
      expect=['verify_password(p, hash_password(p)) is True', 'verify uses the salt and parameters stored in the hash'])


def l192(kind):
    """every q != p is p[:i] + r where i is the length of the common prefix; three shapes cover all of them:
    q a proper prefix of p, p a proper prefix of q, or the byte after the common prefix differs (any tail)"""
    if core._rp() is None:
        E().tags['collision_free'] = True
    p, L = rope.blob('password', 0, None)
    if kind == 'shorter':
        i = core.symint('common_prefix', 0, None)
        core.assume(i < L)
        q = p[:i]
    elif kind == 'longer':
        r, Lr = rope.blob('extra', 1, None)
        q = p + r
    elif kind == 'derived':
        # a value the implementation itself computes on the way: the SHA-256 pre-hash of the right password
        d = auth.hashes.Hash(auth.hashes.SHA256(), backend=auth.default_backend())
        d.update(p)
        q = d.finalize()
        if core._rp() is None:
            core.assume(Not(rope.rope_eq(q, p)))          # a password that is its own digest is the right password
        elif q == p:
            return
    else:
        i = core.symint('common_prefix', 0, None)
        core.assume(i < L)
        d = core.symint('delta', 1, 255)
        c = p[i] + d
        if bool(c > 255):
            c = c - 256
        t, Lt = rope.blob('tail', 0, None)
        q = p[:i] + rope.field(c, 1) + t
    h = Auth.hash_password(p)
    ok = Auth.verify_password(q, h)
    check(ok is False, 'another password does not verify (given collision freedom of SHA-256 o scrypt)')
    if core._rp() is None:
        sp = E().tags['scrypt_params']
        check(rope.rope_eq(sp[0]['salt'], sp[1]['salt']), 'same salt on both sides')


def replay_l192(cfg, m):
    # same harness on the real package; real scrypt with the library's parameters takes ~0.1 s per call
    from .common import generic_replay
    import sys as _s
    return generic_replay(l192, [_s.modules[__name__]])(cfg, m)


R.add('L19.2', l192, [dict(kind=k) for k in ('shorter', 'longer', 'differs', 'derived')], replay=replay_l192,
      desc='wrong password of every shape (proper prefix, proper extension, first differing byte at any offset with any tail, '
           'lengths unbounded) and the implementation\'s own intermediate value sha256(p): result is False unless SHA-256/scrypt collide',
      expect=['another password does not verify (given collision freedom of SHA-256 o scrypt)'],
      bounds='password and candidate lengths unbounded (symbolic); offset of the first difference unbounded')


def l193():
    p, L = rope.blob('password', 0, None)
    h1 = Auth.hash_password(p)
    h2 = Auth.hash_password(p)
    e = E()
    ub = e.tags['urandom_blobs']
    check(len(ub) == 2, 'each hash draws its own random salt')
    check(And(rope.SxInt.wrap(ub[0].length) == 16, rope.SxInt.wrap(ub[1].length) == 16) if False else
          And(core.SxInt.wrap(ub[0].length) == 16, core.SxInt.wrap(ub[1].length) == 16), 'salt is 16 random bytes')
    sp = e.tags['scrypt_params']
    for i in (0, 1):
        fb = rope.full_view_blob(sp[i]['salt'])
        check(fb is ub[i], 'the KDF salt is exactly the fresh random draw')
        # and the same salt is what the hash string carries
        data = auth.base64.b64decode(h1.encode('utf-8').split(b':')[3] if i == 0 else h2.encode('utf-8').split(b':')[3])
        check(rope.rope_eq(data[:16], sp[i]['salt']), 'the hash string embeds that salt')


R.add('L19.3', l193, [{}], desc='fresh salt per hash, embedded in the hash string',
      expect=['the KDF salt is exactly the fresh random draw', 'the hash string embeds that salt'])


def l194(nfields):
    """hash string = nfields arbitrary ':'-free fields joined by ':' (truncation at or inside any field,
    field removal, base64 damage and parameter edits are all instances)"""
    p, L = rope.blob('password', 0, None)
    fields = [text.atom('field%d' % i, nosep=':', nonempty=False) for i in range(nfields)]
    h = text.join(':', fields) if fields else ''
    try:
        ok = Auth.verify_password(p, h)
        outcome = 'returned'
    except (ValueError, TypeError) as ex:
        outcome = 'refused'
    except Exception as ex:
        core.fail('malformed hash string raises something other than ValueError/TypeError', error=type(ex).__name__)
    if outcome == 'refused':
        check(True, 'malformed hash refused with ValueError/TypeError')
        return
    if isinstance(ok, SxBool):
        ok = bool(ok)
    check(ok is True or ok is False, 'returns a bool')
    if ok is True:
        e = E()
        sp = e.tags.get('scrypt_params', [])
        check(nfields >= 4 and len(sp) == 1, 'True only if the four fields decoded and the KDF ran')
        # and the comparison that succeeded was derive(...) == the data field's tail
        check(len(e.tags.get('kdf_verified', [])) == 1, 'True only if derive matched the stored digest')
        # ... and the derivation was the one the hash string describes: parameters, salt split and digest
        # length all taken from the params field (a digest shorter than the recorded length is a truncated hash)
        dec = e.tags.get('b64dec_ropes', [])
        if len(dec) == 2 and len(sp) == 1:
            params, data = dec
            pb = [params[i] for i in range(6)]
            used = sp[0]
            check(And(used['n'] == pb[0] * 256 + pb[1], used['r'] == pb[2], used['p'] == pb[3]), 'the KDF ran with the cost parameters recorded in the hash')
            check(used['length'] == pb[5], 'the KDF derived the digest length recorded in the hash (a shorter stored digest never verifies)')
            check(rope.rope_eq(used['salt'], data[:pb[4]]), 'the KDF salt is the recorded number of leading bytes of the data field')
            check(rope.rope_eq(e.tags['kdf_verified'][0]['expected'], data[pb[4]:]), 'the digest compared is the rest of the data field')
    else:
        check(True, 'malformed hash returns False')


def replay_l194(cfg, m):
    """rebuild a concrete hash string; where the model decoded a base64 field into bytes, the field is
    re-encoded from those bytes.  scrypt is replaced by a cheap stand-in with the real parameter
    validation, so that the data flow (not the cost) is replayed."""
    import base64
    import hashlib
    import unittest.mock as um
    a = real('mpgameserver.auth')
    from cryptography.hazmat.primitives.kdf import scrypt as sc
    from cryptography.exceptions import InvalidKey
    n = cfg['nfields']
    fields = [m.get('field%d' % i, '') for i in range(n)]
    fails = sorted((int(k.split('#')[1]), v) for k, v in m.items() if k.startswith('b64decode_fails#'))
    dec = 0
    for j, (_, failed) in enumerate(fails[:2]):
        if not failed and n >= 4:
            dec += 1
            ln = m.get('b64dec%d_len' % dec, 0)
            raw = bytes(m.get('b64dec%d[%d]' % (dec, i), 0) for i in range(min(ln, 8))) + bytes(max(0, ln - 8))
            fields[2 + j] = base64.b64encode(raw).decode()
    if n >= 4 and fails:
        fields[0], fields[1] = 'scrypt', '1'
    h = ':'.join(fields)

    class Fake:
        def __init__(self, salt, length, N, r, p, backend=None):
            if N < 2 or N & (N - 1) or r < 1 or p < 1:
                raise ValueError('invalid scrypt parameters')
            self.args = (salt, length, N, r, p)

        def derive(self, km):
            return hashlib.shake_128(repr(self.args).encode() + km).digest(self.args[1])

        def verify(self, km, expected):
            if self.derive(km) != expected:
                raise InvalidKey('Keys do not match.')
    Fake.last = None
    _init = Fake.__init__

    def init(self, *a, **k):
        _init(self, *a, **k)
        Fake.last = self
    Fake.__init__ = init

    def run(hs):
        try:
            with um.patch.object(a.scrypt, 'Scrypt', Fake):
                return 'returned', a.Auth.verify_password(b'pw', hs)
        except (ValueError, TypeError):
            return 'refused', None
        except Exception as e:
            return 'raised', type(e).__name__
    kind, r = run(h)
    if kind == 'raised':
        return True, 'verify_password(b"pw", %r) raised %s' % (h, r)
    if kind == 'returned' and r is not True and Fake.last is not None and n >= 4 and dec == 2:
        # the model's "derive matched" is a free outcome: give the stored digest the bytes the KDF really
        # produces for the parameters the code under test used, keep its (possibly truncated) length
        params = base64.b64decode(fields[2])
        data = base64.b64decode(fields[3])
        if len(params) == 6:
            sl = params[4]
            digest_len = max(0, len(data) - sl)
            out = Fake.last.derive(hashlib.sha256(b'pw').digest())
            if len(out) >= digest_len:
                fields[3] = base64.b64encode(data[:sl] + out[:digest_len]).decode()
                h2 = ':'.join(fields)
                kind, r = run(h2)
                if kind == 'returned' and r is True and digest_len != params[5]:
                    return True, ('verify_password(b"pw", %r) returned True although the stored digest has %d bytes and the hash '
                                  'records a digest length of %d' % (h2, digest_len, params[5]))
                if kind == 'returned' and r is True:
                    return False, 'well-formed hash verified (allowed)'
    if kind == 'returned' and r is True:
        return True, 'verify_password(b"pw", %r) returned True for a hash not produced for this password' % (h,)
    return False, '%s %r' % (kind, r)


R.add('L19.4', l194, lambda tier: [dict(nfields=n) for n in range(0, 7)], replay=replay_l194,
      desc='arbitrary hash strings with 0..6 fields: False / ValueError / TypeError, True only via a matching derive',
      expect=['malformed hash refused with ValueError/TypeError', 'malformed hash returns False',
              'True only if derive matched the stored digest'],
      bounds='0..6 fields, each an arbitrary string without ":"')


def l195():
    """type checks"""
    which = choose(3, 'bad_arg')
    try:
        if which == 0:
            Auth.hash_password('text')
        elif which == 1:
            Auth.verify_password('text', 'scrypt:1:x:y')
        else:
            Auth.verify_password(b'pw', b'scrypt:1:x:y')
        raised = False
    except TypeError:
        raised = True
    check(raised, 'non-bytes password / non-str hash raise TypeError')


R.add('L19.5', l195, [{}], desc='argument type checks', expect=['non-bytes password / non-str hash raise TypeError'])

for _lid in ['L19.1', 'L19.2', 'L19.3', 'L19.4', 'L19.5']:
    if _lid in R.lemmas:
        R.lemmas[_lid].api = True

get_harness = R.get_harness
