"""./check driver: run all lemma instances of a property on the process pool, replay
counterexamples against the real package, apply known findings, write evidence, set exit code.

exit 0: every obligation proven on every path within the bounds (known findings may be printed)
exit 1: a counterexample reproduced on the real package  -> VIOLATION line
exit 2: inconclusive / harness error (unknown, unsupported, timeout, non-reproducing model)
"""
import argparse
import importlib
import json
import os
import sys
import time
import traceback

VERIF = os.path.dirname(os.path.dirname(os.path.abspath(__file__)))
sys.path.insert(0, VERIF)

MODULES = {
    'C01': 'props.c01', 'C02': 'props.c02', 'C03': 'props.c03', 'C04': 'props.c04', 'C05': 'props.c05',
    'C06': 'props.c06', 'C07': 'props.c07', 'C08': 'props.c08', 'C09': 'props.c09', 'C10': 'props.c10',
    'C11': 'props.c11', 'C12': 'props.c12', 'C13': 'props.c13', 'C14': 'props.c14', 'C15': 'props.c15',
    'C16': 'props.c16', 'C17': 'props.c17', 'C18': 'props.c18', 'C19': 'props.c19', 'C20': 'props.c20',
}


class ReplayTimeout(BaseException):
    pass


def call_replay(lem, cfg, model, seconds=90):
    """run a replay driver under an alarm: a replay that does not return is inconclusive, never a hang"""
    import signal

    def onalarm(*a):
        raise ReplayTimeout()
    old = signal.signal(signal.SIGALRM, onalarm)
    signal.alarm(seconds)
    try:
        return lem.replay(cfg, model)
    except ReplayTimeout:
        return False, 'replay did not return within %d s' % seconds
    finally:
        signal.alarm(0)
        signal.signal(signal.SIGALRM, old)


BASE_ASSUMPTIONS = ['sx engine: proxy semantics of int/bool/real/bytes/str/dict/set and the AST rewrites (validated by ./check selftest: '
                    '45 repository unit tests run on the instrumented modules, struct/rope/BytesIO differential tests)',
                    'z3 verdicts (unsat/sat); a solver unknown or timeout is reported as inconclusive, never as a pass']
AEAD = 'AES-GCM is an ideal AEAD: decrypt succeeds only on a ciphertext the peer object really produced under the same key, nonce and associated data'
CRC = 'binascii.crc32 is an uninterpreted function; the attacker computes it correctly (CRC-32 is public)'
CLOCK = 'clocks are exact non-decreasing reals below 2^32 s (float rounding of time.time() is outside)'
STRUCT = 'struct / io.BytesIO models follow CPython for the formats occurring in /repo'
ASSUMPTIONS = {
    'C01': [AEAD, CRC, STRUCT, CLOCK], 'C03': [AEAD, CRC, STRUCT, CLOCK], 'C04': [AEAD, STRUCT, CLOCK, 'C08: window exactness inside the window'],
    'C05': [AEAD, STRUCT, CLOCK, 'the composition "therefore eventually delivered" is a paper argument over the proven lemmas'],
    'C06': [STRUCT, CLOCK, 'rope equality is structural: equal verdicts are sound, unrelated opaque contents compare as a free Boolean',
            'L6.5b runs with Packet.MAX_FRAGMENTS lowered to 3 / 8 (the code reads the class attribute at run time); the production constant 8192 differs only in that number'],
    'C07': [CLOCK, STRUCT], 'C08': [STRUCT], 'C09': [STRUCT, CRC, AEAD],
    'C10': [AEAD, STRUCT, 'single-threaded driver of the real run(): threading/Condition/reactor/socket are inert stand-ins; server.sleep is a no-op',
            'inside the loop harness get_token hands out distinct values (the generator itself is decided in L10.3)'],
    'C11': [AEAD, CRC, STRUCT, 'single-threaded driver of the real run() as in C10'],
    'C12': [CLOCK, AEAD, 'socket/select stand-ins for UdpClient; the induction over emissions ("indefinitely") is a paper step'],
    'C13': [STRUCT, 'float32 packing is an uninterpreted token with symbolic NaN / out-of-range flags', 'utf-8 length between chars and 4*chars',
            'L13.3 runs with MAX_ARRAY_LENGTH lowered to 2 / 4 (module constant read at run time); a class\'s wire format is the fields it declares itself'],
    'C14': [STRUCT, 'work is counted in loop iterations, function entries and stream reads of the Python code'],
    'C15': ['json.dumps/loads modelled as identity on plain JSON data with object keys stringified (str(int) <-> int(str) inverse)'],
    'C16': ['z3 sequence/regex theory; sre parse tree -> z3 Re translation for the constructs the router emits; request paths range over non-control characters',
            'rate limiter wall clock pinned to a realistic epoch time', 'collections.OrderedDict is an insertion-ordered association list whose key lookup is decided by the solver'],
    'C17': ['CPython posixpath.py (pure-Python normpath fallback) is the specification of os.path on POSIX; string-level property (no symlinks)',
            'urllib.parse.unquote on a symbolic segment: solver-backed model, at most 2 percent escapes followed per path, escapes decoding to bytes >= 0x80 not modelled (beyond: inconclusive)'],
    'C18': [STRUCT], 'C20': ['finite domain enumerated exhaustively through engine decisions'],
    'C19': ['uninterpreted functions obey congruence; under the collision-freedom switch f(a) == f(b) <=> a == b, with rope equality deciding a == b'],
    'C02': [AEAD, CRC, STRUCT],
}


def jsonable(x):
    try:
        json.dumps(x)
        return x
    except Exception:
        if isinstance(x, dict):
            return {str(k): jsonable(v) for k, v in x.items()}
        if isinstance(x, (list, tuple, set)):
            return [jsonable(v) for v in x]
        return repr(x)[:300]


def main(argv=None):
    ap = argparse.ArgumentParser()
    ap.add_argument('prop')
    ap.add_argument('path', nargs='?')
    ap.add_argument('--tier', default=os.environ.get('VERIF_TIER', 'quick'), choices=['quick', 'thorough'])
    ap.add_argument('--only', default=None, help='comma separated lemma ids')
    ap.add_argument('--nproc', type=int, default=int(os.environ.get('SX_NPROC', '16')))
    ap.add_argument('--timeout', type=float, default=None, help='wall-clock cap in seconds')
    ap.add_argument('--no-evidence', action='store_true')
    ap.add_argument('-v', action='store_true')
    a = ap.parse_args(argv)
    if a.prop == 'replay':
        return replay_file(a.path)
    return run_property(a.prop, a.tier, a.only, a.nproc, a.timeout, not a.no_evidence, a.v)


def replay_file(path):
    rec = json.load(open(path))
    mod = importlib.import_module(MODULES[rec['property']])
    lem = mod.R.lemmas[rec['lemma']]
    ok, detail = lem.replay(rec['cfg'], rec['model'])
    print('replay %s %s: %s (%s)' % (rec['property'], rec['lemma'], 'REPRODUCED' if ok else 'not reproduced', detail))
    return 1 if ok else 0


def run_property(prop, tier, only, nproc, timeout, write_evidence, verbose):
    t0 = time.time()
    seed = int(os.environ.get('VERIF_SEED', '0') or 0)
    import sx
    from sx import explore, loader
    from props import common
    modname = MODULES[prop]
    mod = importlib.import_module(modname)
    R = mod.R
    # ---- known findings: which open ones still reproduce?
    kf_lines = []
    active = []
    for f in common.open_findings(prop):
        lem = R.lemmas.get(f['lemma'])
        ok = False
        try:
            ok, detail = call_replay(lem, f.get('cfg', {}), f['witness'])
        except Exception as x:
            detail = 'replay raised %r' % (x,)
        if ok:
            active.append(f['id'])
            kf_lines.append('KNOWN-FINDING: property=%s %s [%s]' % (prop, f['summary'], f['id']))
        else:
            print('note: known finding %s no longer reproduces (%s); its region is checked again' % (f['id'], detail))
    os.environ['SX_KF_ACTIVE'] = ','.join(active)
    # fixed findings: witnesses kept as regression replays that must now pass
    regress = []
    for f in common.known_findings():
        if f.get('property') == prop and f.get('status') == 'fixed' and f.get('witness') is not None:
            lem = R.lemmas.get(f['lemma'])
            if lem is None or lem.replay is None:
                continue
            try:
                ok, detail = call_replay(lem, f.get('cfg', {}), f['witness'])
            except Exception as x:
                ok, detail = True, 'replay raised %r' % (x,)
            if ok:
                regress.append((f, detail))
    loader.freeze()
    explore.BEFORE_PATH.append(loader.restore)
    keys = R.keys(tier)
    if only:
        sel = set(only.split(','))
        keys = [k for k in keys if k[0] in sel]
    if timeout is None:
        timeout = float(os.environ.get('SX_TIMEOUT', getattr(mod, 'TIMEOUT', {}).get(tier, 900 if tier == 'quick' else 7200)))
    deadline = t0 + timeout

    def progress(k, r):
        if verbose:
            print('  .. %s paths=%d cex=%d left?' % (k, r['paths'], len(r['cex'])), file=sys.stderr)

    step_limit = max(l.step_limit for l in R.lemmas.values())
    path_cap = max(l.path_cap for l in R.lemmas.values())
    results = explore.explore_pool(modname, keys, nproc=nproc, seed=seed, deadline=deadline,
                                   step_limit=step_limit, path_cap=path_cap, progress=progress)
    # ---- verdicts
    violations = []
    inconclusive = []
    tot = dict(paths=0, passed=0, pruned=0, queries=0, solver_s=0.0, checks=0, proved=0, pwc=0)
    samples = []
    per_lemma = {}
    entered = set()
    for key in keys:
        r = results[key]
        entered |= set(r.get('entered', ()))
        lid = key[0]
        lem = R.lemmas[lid]
        cfg = R.cfg(key)
        tag = '%s%s' % (lid, json.dumps(jsonable(cfg), sort_keys=True) if cfg else '')
        pl = per_lemma.setdefault(lid, dict(instances=0, paths=0, obligations=0, discharged=0, queries=0,
                                            solver_s=0.0, desc=lem.desc, bounds=lem.bounds, reached=set()))
        pl['instances'] += 1
        pl['paths'] += r['paths']
        pl['obligations'] += r['checks']
        pl['discharged'] += r['proved']
        pl['queries'] += r['queries']
        pl['solver_s'] += r['solver_s']
        pl['reached'] |= r['reached']
        tot['paths'] += r['paths']
        tot['passed'] += r['passed']
        tot['pruned'] += r['pruned']
        tot['queries'] += r['queries']
        tot['solver_s'] += r['solver_s']
        tot['checks'] += r['checks']
        tot['proved'] += r['proved']
        tot['pwc'] += r['paths_with_checks']
        for s in r['samples'][:1]:
            if len(samples) < 8:
                samples.append(dict(lemma=lid, cfg=jsonable(cfg), **jsonable(s)))
        for kind in ('unknown', 'unsupported', 'errors'):
            if r[kind]:
                inconclusive.append('%s: %s x%d: %s' % (tag, kind, len(r[kind]), str(r[kind][0])[:600]))
        if r['steplimit']:
            inconclusive.append('%s: step limit hit on %d paths' % (tag, r['steplimit']))
        if r.get('left'):
            inconclusive.append('%s: %d subtrees unexplored (timeout/abort)' % (tag, r['left']))
        seen_msgs = set()
        for c in r['cex']:
            if c['msg'] in seen_msgs:
                continue
            seen_msgs.add(c['msg'])
            rec = dict(property=prop, lemma=lid, cfg=jsonable(cfg), msg=c['msg'], model=jsonable(c['model']),
                       extra=jsonable(c.get('extra', {})))
            reproduced, detail = False, 'no replay driver'
            if lem.replay is not None:
                try:
                    reproduced, detail = call_replay(lem, cfg, c['model'])
                except Exception as x:
                    detail = 'replay driver raised: %s' % traceback.format_exc()[-800:]
            if not reproduced:
                # the symbolic run saw the code under check raise an exception the harness did not expect, and the concrete
                # run on the real package raised an exception of the same type (in the driver or in the re-executed
                # harness): the crash is real
                import re as _re
                ms = _re.match(r'the code under check raised (\w+)', c['msg'])
                mr = _re.findall(r'(?m)^(\w+(?:\.\w+)*)(?::|$)', str(detail).strip().splitlines()[-1]) if ('raised' in str(detail) and str(detail).strip()) else []
                files = _re.findall(r'File "([^"]+)"', str(detail))
                in_pkg = bool(files) and (os.sep + 'mpgameserver' + os.sep) in files[-1]
                if lem.api and in_pkg and ms and mr and mr[0].split('.')[-1] == ms.group(1):
                    reproduced = True
                    detail = 'the real package raises the same %s on these inputs: %s' % (ms.group(1), str(detail).strip().splitlines()[-1][:200])
            rec['replay_detail'] = detail
            if reproduced:
                d = os.path.join(os.environ.get('SX_REPLAY_DIR') or os.path.join(VERIF, 'replays'), prop)
                os.makedirs(d, exist_ok=True)
                fn = os.path.join(d, '%s_%d_%d.json' % (lid.replace('.', '_'), key[1], len(violations)))
                json.dump(rec, open(fn, 'w'), indent=1, sort_keys=True)
                violations.append((rec, fn))
            else:
                inconclusive.append('%s: counterexample did not reproduce on the real package (%s): %s model=%s' % (
                    tag, c['msg'], str(detail)[:300], json.dumps(rec['model'])[:400]))
        if not r['cex'] and not r.get('left') and not r['errors']:
            missing = [x for x in lem.expect if x not in r['reached']]
            if missing and not cfg.get('_no_expect'):
                # expectations are per lemma, over all its instances: checked below
                pass
    for lid, pl in per_lemma.items():
        lem = R.lemmas[lid]
        missing = [x for x in lem.expect if x not in pl['reached']]
        if missing and not any(v[0]['lemma'] == lid for v in violations):
            inconclusive.append('%s: vacuity guard - obligations never reached: %s' % (lid, missing))
    for f, detail in regress:
        violations.append((dict(property=prop, lemma=f['lemma'], msg='regression of fixed finding %s' % f['id'],
                                cfg=f.get('cfg', {}), model=f['witness'], replay_detail=detail), f.get('witness_file', 'known_findings.json')))
    wall = time.time() - t0
    # ---- evidence
    if write_evidence:
        ev = dict(
            property_id=prop, tier=tier, seed=seed, level='other',
            coverage=dict(
                explanation=('bounded symbolic execution of the real source of /repo (sx engine: proxy values over z3, '
                             'path exploration by re-execution) - every obligation is decided by an SMT query over all '
                             'values inside the stated bounds; counterexamples are replayed on the uninstrumented package. '
                             + getattr(mod, 'EXPLANATION', '')),
                evaluations=tot['paths'], distinct_nontrivial=tot['pwc'],
                rule='one evaluation = one explored execution path (distinct decision vector) of a harness instance; '
                     'non-trivial = the path reached at least one proof obligation',
                obligations=tot['checks'], discharged=tot['proved'],
                solver_queries=tot['queries'], solver_s=round(tot['solver_s'], 2),
                harness_instances=len(keys), paths_pruned_by_assumptions=tot['pruned'],
                functions_encoded=sorted(entered | loader.ENTERED)[:500],
                bounds='; '.join('%s: %s' % (lid, pl['bounds']) for lid, pl in per_lemma.items() if pl['bounds']) or getattr(mod, 'BOUNDS', 'see lemmas'),
                lemmas={lid: dict(desc=pl['desc'], bounds=pl['bounds'], instances=pl['instances'], paths=pl['paths'],
                                  obligations=pl['obligations'], discharged=pl['discharged'],
                                  solver_queries=pl['queries'], solver_s=round(pl['solver_s'], 2),
                                  obligations_reached=sorted(x for x in pl['reached'] if x))
                        for lid, pl in per_lemma.items()},
                samples=samples or [dict(note='no passing path with declared inputs')],
                known_findings=kf_lines, inconclusive=inconclusive[:20],
                exhaustive=False,
            ),
            assumptions=BASE_ASSUMPTIONS + list(getattr(mod, 'ASSUMPTIONS', [])) + ASSUMPTIONS.get(prop, []),
            wall_s=round(wall, 2), violations=len(violations))
        os.makedirs(os.path.join(VERIF, 'evidence'), exist_ok=True)
        json.dump(ev, open(os.path.join(VERIF, 'evidence', prop + '.json'), 'w'), indent=1, sort_keys=True)
    # ---- report
    for l in kf_lines:
        print(l)
    print('%s tier=%s instances=%d paths=%d obligations=%d discharged=%d queries=%d solver=%.1fs wall=%.1fs' % (
        prop, tier, len(keys), tot['paths'], tot['checks'], tot['proved'], tot['queries'], tot['solver_s'], wall))
    for rec, fn in violations:
        print('  %s %s: %s  [%s]' % (rec['lemma'], json.dumps(rec.get('cfg', {})), rec['msg'], str(rec.get('replay_detail'))[:200]))
        print('VIOLATION property=%s replay=%s' % (prop, fn))
    for l in inconclusive:
        print('INCONCLUSIVE ' + l[:1500])
    if violations:
        return 1
    if inconclusive:
        return 2
    return 0


if __name__ == '__main__':
    sys.exit(main())
