"""C15 - typed JSON round-trip of Serializable objects.

Annotation shapes are enumerated (one level of generic containers, as the documentation lists);
all leaf values are symbolic.  fromJson(toJson(x)) and loads(dumps(x)) (json model) must
reproduce x field for field, and toJson must be plain JSON data.
"""
from typing import Dict, List, Set, Tuple

import sx
from sx import core, rope, text
from sx.core import check, assume, choose, symbool, symint, SxBool, SxInt, E, And, Or, Not, Iff
from sx.floats import FloatTok
from sx.models import json_m
from sx.values import SxDict, SxSet
from .common import Registry, real
from . import c13

ser = c13.ser
Serializable, SerializableEnum = ser.Serializable, ser.SerializableEnum
INT, STR, FLOAT, BOOL = (ser.__builtins__[k] for k in ('int', 'str', 'float', 'bool'))
R = Registry('C15')


class Shade(SerializableEnum):
    OFF = 0          # a member whose underlying value is falsy
    DARK = 1
    LIGHT = 2


class Inner(Serializable):
    n: INT = 0
    s: STR = ""


LEAFT = {'int': INT, 'str': STR, 'float': FLOAT, 'bool': BOOL, 'enum': Shade, 'ser': Inner}
REALT = {'int': int, 'str': str, 'float': float, 'bool': bool}


def leafval(kind, name):
    if kind == 'int':
        return symint(name)
    if kind == 'str':
        return text.opaque(name)
    if kind == 'float':
        return FloatTok(name, nan=symbool(name + '_isnan'))
    if kind == 'bool':
        return symbool(name)
    if kind == 'enum':
        return [Shade.OFF, Shade.DARK, Shade.LIGHT][choose(3, name + '_member')]
    if kind == 'ser':
        o = Inner()
        o.n = symint(name + '_n')
        o.s = text.opaque(name + '_s')
        return o


ELEM = ['int', 'str', 'float', 'bool', 'enum', 'ser']
KEYS = ['int', 'str', 'enum']
_classes = {}


def field_shapes():
    out = [('leaf', k) for k in ELEM]
    out += [('list', k) for k in ELEM]
    out += [('set', k) for k in ('int', 'str', 'enum')]
    out += [('dict', k, v) for k in KEYS for v in ELEM]
    out += [('tuple', a, b) for a, b in (('int', 'int'), ('int', 'str'), ('str', 'enum'), ('float', 'ser'), ('bool', 'int'))]
    return out


def annotation(shape, table):
    k = shape[0]
    if k == 'leaf':
        return table[shape[1]]
    if k == 'list':
        return List[table[shape[1]]]
    if k == 'set':
        return Set[table[shape[1]]]
    if k == 'dict':
        return Dict[table[shape[1]], table[shape[2]]]
    if k == 'tuple':
        return Tuple[table[shape[1]], table[shape[2]]]


def holder(shape):
    """a Serializable class with one field `f` of the annotated shape plus an int field"""
    key = repr(shape)
    if key not in _classes:
        name = 'H_' + '_'.join(shape)
        ns = {'__annotations__': {'f': annotation(shape, LEAFT), 'tag': INT}, 'f': None, 'tag': 0, '__module__': __name__}
        _classes[key] = ser.SerializableType(name, (Serializable,), ns)
    return _classes[key]


for _s in field_shapes():
    holder(_s)


def fieldval(shape, size):
    k = shape[0]
    if k == 'leaf':
        return leafval(shape[1], 'f')
    if k == 'list':
        return [leafval(shape[1], 'f%d' % i) for i in range(size)]
    if k == 'set':
        return SxSet(leafval(shape[1], 'f%d' % i) for i in range(size))
    if k == 'dict':
        d = SxDict()
        for i in range(size):
            d[leafval(shape[1], 'k%d' % i)] = leafval(shape[2], 'v%d' % i)
        return d
    if k == 'tuple':
        return (leafval(shape[1], 'f0'), leafval(shape[2], 'f1'))


def plain_json(o):
    if o is None or isinstance(o, (bool, SxBool, int, SxInt, float, FloatTok, str)) or text.istext(o):
        return type(o) in (type(None), bool, SxBool, int, SxInt, float, FloatTok, str, text.Text)
    if isinstance(o, list):
        return all(plain_json(x) for x in o)
    if isinstance(o, (dict, SxDict)):
        return all((isinstance(k, (str, int, SxInt)) or text.istext(k)) and plain_json(v) for k, v in o.items())
    return False


def l151(shape, maxsize=2):
    shape = tuple(shape)
    H = holder(shape)
    x = H()
    x.tag = symint('tag')
    if shape[0] == 'leaf':
        x.f = fieldval(shape, 0)
    else:
        size = choose(maxsize + 2, 'size')          # 0..maxsize elements or None
        x.f = None if size == maxsize + 1 else fieldval(shape, size)
    try:
        j = x.toJson()
    except Exception as ex:
        core.fail('toJson raised', error=type(ex).__name__ + ': ' + str(ex)[:80], shape=repr(shape))
    check(plain_json(j), 'toJson produces plain JSON data', shape=repr(shape))
    try:
        y = H.fromJson(j)
    except Exception as ex:
        core.fail('fromJson(toJson(x)) raised', error=type(ex).__name__ + ': ' + str(ex)[:80], shape=repr(shape))
    check(And(c13.deq(x.f, y.f), y.tag == x.tag), 'fromJson(toJson(x)) reproduces x', shape=repr(shape))
    check(container_type_ok(shape, x.f, y.f), 'containers come back with their annotated type', shape=repr(shape))
    try:
        s = x.dumps()
        z = H.loads(s)
    except Exception as ex:
        core.fail('loads(dumps(x)) raised', error=type(ex).__name__ + ': ' + str(ex)[:80], shape=repr(shape))
    check(And(c13.deq(x.f, z.f), z.tag == x.tag), 'loads(dumps(x)) reproduces x', shape=repr(shape))
    check(container_type_ok(shape, x.f, z.f), 'containers come back with their annotated type', shape=repr(shape))


def container_type_ok(shape, a, b):
    if a is None:
        return b is None
    k = shape[0]
    if k == 'list':
        return isinstance(b, list)
    if k == 'set':
        return isinstance(b, SxSet)
    if k == 'dict':
        return isinstance(b, SxDict)
    if k == 'tuple':
        return isinstance(b, tuple)
    return True


_real = {}


def real_world():
    if _real:
        return _real
    s = real('mpgameserver.serializable')

    class Shade(s.SerializableEnum):
        OFF = 0
        DARK = 1
        LIGHT = 2

    class Inner(s.Serializable):
        n: int = 0
        s: str = ""
    _real.update(Shade=Shade, Inner=Inner, table={'int': int, 'str': str, 'float': float, 'bool': bool, 'enum': Shade, 'ser': Inner}, H={})
    return _real


def replay_l151(cfg, m):
    import json
    import math
    w = real_world()
    s = real('mpgameserver.serializable')
    shape = tuple(cfg['shape'])
    key = repr(shape)
    if key not in w['H']:
        ns = {'__annotations__': {'f': annotation(shape, w['table']), 'tag': int}, 'f': None, 'tag': 0}
        w['H'][key] = s.SerializableType('RH_' + '_'.join(shape), (s.Serializable,), ns)
    H = w['H'][key]

    def leaf(kind, name):
        if kind == 'int':
            return m.get(name, 0)
        if kind == 'str':
            return 'x' * min(m.get(name + '_chars', 0), 50)
        if kind == 'float':
            return float('nan') if m.get(name + '_isnan') else 2.5
        if kind == 'bool':
            return bool(m.get(name, False))
        if kind == 'enum':
            return [w['Shade'].OFF, w['Shade'].DARK, w['Shade'].LIGHT][[v for k, v in m.items() if k.startswith(name + '_member')][0]]
        if kind == 'ser':
            o = w['Inner']()
            o.n = m.get(name + '_n', 0)
            o.s = 'y' * min(m.get(name + '_s_chars', 0), 50)
            return o
    x = H()
    x.tag = m.get('tag', 0)
    k = shape[0]
    size = ([v for kk, v in m.items() if kk.startswith('size')] or [0])[0]
    if k == 'leaf':
        x.f = leaf(shape[1], 'f')
    elif size == cfg.get('maxsize', 2) + 1:
        x.f = None
    elif k == 'list':
        x.f = [leaf(shape[1], 'f%d' % i) for i in range(size)]
    elif k == 'set':
        x.f = set(leaf(shape[1], 'f%d' % i) for i in range(size))
    elif k == 'dict':
        x.f = {leaf(shape[1], 'k%d' % i): leaf(shape[2], 'v%d' % i) for i in range(size)}
    else:
        x.f = (leaf(shape[1], 'f0'), leaf(shape[2], 'f1'))

    def norm(v):
        if isinstance(v, float) and math.isnan(v):
            return 'nan'
        if isinstance(v, (list, tuple)):
            return (type(v).__name__, [norm(y) for y in v])
        if isinstance(v, set):
            return ('set', sorted(repr(norm(y)) for y in v))
        if isinstance(v, dict):
            return ('dict', sorted((repr(norm(a)), repr(norm(b))) for a, b in v.items()))
        if isinstance(v, s.Serializable):
            return (type(v).__name__, [norm(getattr(v, f)) for f in v._fields])
        if isinstance(v, s.SerializableEnum):
            return (type(v).__name__, v.value)
        return (type(v).__name__, v)
    try:
        j = x.toJson()
        json.dumps(j)
        y = H.fromJson(j)
        z = H.loads(x.dumps())
    except Exception as ex:
        return True, 'shape %r value %r: %s: %s' % (shape, x.f, type(ex).__name__, ex)
    bad = norm(y.f) != norm(x.f) or norm(z.f) != norm(x.f) or y.tag != x.tag or z.tag != x.tag
    return bad, 'shape %r: %r -> %r / %r' % (shape, x.f, y.f, z.f)


R.add('L15.1', l151, lambda tier: [dict(shape=list(s), maxsize=(2 if tier == 'quick' else 3)) for s in field_shapes()], replay=replay_l151,
      desc='fromJson(toJson(x)) and loads(dumps(x)) field-wise equal; toJson is plain JSON data',
      expect=['fromJson(toJson(x)) reproduces x', 'loads(dumps(x)) reproduces x', 'toJson produces plain JSON data'],
      bounds='annotation shapes: basic types, nested Serializable, enum, List/Set/Dict/Tuple of these with int/str/enum keys; '
             'container sizes 0..2 (thorough 0..3) and None')


# ------------------------------------------------------------------ L15.2 two classes, one field name
PAIRS = [(('list', 'int'), ('dict', 'int', 'str')), (('dict', 'int', 'ser'), ('list', 'str')), (('set', 'int'), ('list', 'int')),
         (('list', 'int'), ('set', 'int')), (('tuple', 'int', 'str'), ('list', 'int')), (('list', 'ser'), ('leaf', 'ser')),
         (('leaf', 'int'), ('list', 'enum')), (('dict', 'str', 'int'), ('set', 'str')), (('list', 'str'), ('tuple', 'int', 'int')),
         (('dict', 'enum', 'int'), ('dict', 'int', 'int'))]


def small(shape, leaf, mkset=set, mkdict=dict):
    k = shape[0]
    if k == 'leaf':
        return leaf(shape[1], 0)
    if k == 'list':
        return [leaf(shape[1], 0), leaf(shape[1], 1)]
    if k == 'set':
        return mkset([leaf(shape[1], 0), leaf(shape[1], 1)])
    if k == 'dict':
        return mkdict([(leaf(shape[1], 0), leaf(shape[2], 0)), (leaf(shape[1], 1), leaf(shape[2], 1))])
    return (leaf(shape[1], 0), leaf(shape[2], 1))


def l152(first, second, maxsize=2):
    """every message class has its own annotations: another class that uses the same field name with a different
    annotation, and went through JSON first, does not change how this one round-trips"""
    def leaf(kind, i):
        if kind == 'ser':
            o = Inner()
            o.n = 3 + i
            o.s = 'w%d' % i
            return o
        return {'int': 11 + i, 'str': 'k%d' % i, 'float': 1.5 + i, 'bool': bool(i), 'enum': [Shade.DARK, Shade.LIGHT][i]}[kind]
    H1 = holder(tuple(first))
    x1 = H1()
    x1.f = small(tuple(first), leaf, SxSet, SxDict)
    try:
        y1 = H1.fromJson(x1.toJson())
        z1 = H1.loads(x1.dumps())
    except Exception as ex:
        core.fail('the first class does not round-trip', error=type(ex).__name__ + ': ' + str(ex)[:80])
    check(c13.deq(x1.f, y1.f) and c13.deq(x1.f, z1.f), 'the first class round-trips')
    l151(second, maxsize)


def replay_l152(cfg, m):
    w = real_world()
    s = real('mpgameserver.serializable')
    first = tuple(cfg['first'])
    key = repr(first)
    if key not in w['H']:
        ns = {'__annotations__': {'f': annotation(first, w['table']), 'tag': int}, 'f': None, 'tag': 0}
        w['H'][key] = s.SerializableType('RH_' + '_'.join(first), (s.Serializable,), ns)

    def leaf(kind, i):
        if kind == 'ser':
            o = w['Inner']()
            o.n = 3 + i
            o.s = 'w%d' % i
            return o
        return {'int': 11 + i, 'str': 'k%d' % i, 'float': 1.5 + i, 'bool': bool(i), 'enum': [w['Shade'].DARK, w['Shade'].LIGHT][i]}[kind]
    x1 = w['H'][key]()
    x1.f = small(first, leaf)
    try:
        w['H'][key].fromJson(x1.toJson())
        w['H'][key].loads(x1.dumps())
    except Exception as ex:
        return True, 'first class %r does not round-trip: %s: %s' % (first, type(ex).__name__, ex)
    bad, msg = replay_l151(dict(shape=cfg['second'], maxsize=cfg.get('maxsize', 2)), m)
    return bad, 'after a class with field f: %s went through JSON: %s' % ('/'.join(first), msg)


R.add('L15.2', l152, lambda tier: [dict(first=list(a), second=list(b), maxsize=(2 if tier == 'quick' else 3)) for a, b in PAIRS],
      replay=replay_l152,
      desc='two message classes that use the same field name with different annotations, one after the other through JSON: the '
           'second round-trips exactly as it does alone',
      expect=['fromJson(toJson(x)) reproduces x', 'the first class round-trips'],
      bounds='10 ordered pairs of annotation shapes; first class with a fixed 2-element value, second as in L15.1')

# ------------------------------------------------------------------ L15.3 class hierarchies
_JCOUNT = [0]


def mk_json_hierarchy(S, T):
    """a message class and a class derived from it with other fields (fresh names per call: the registry refuses to
    register a name twice).  T maps 'int' / 'str' to the types used in annotations."""
    import os
    _JCOUNT[0] += 1
    tag = '%d_%d' % (os.getpid(), _JCOUNT[0])
    ns = {}
    src = ('class JEnt%(t)s(S):\n    uid: INT = 0\n    kind: STR = ""\n'
           'class JPlayer%(t)s(JEnt%(t)s):\n    name: STR = ""\n    scores: DICT = None\n    tags: LIST = None\n') % dict(t=tag)
    exec(src, {'S': S, 'INT': T['int'], 'STR': T['str'], 'DICT': Dict[T['int'], T['int']], 'LIST': List[T['str']],
               '__name__': __name__}, ns)
    return ns['JEnt' + tag], ns['JPlayer' + tag]


def _l153_run(Ent, Player, order, vals, mkdict, eq, fail):
    b = Ent()
    b.uid, b.kind = vals['uid'], vals['kind']
    p = Player()
    p.name, p.scores, p.tags = vals['name'], mkdict([(vals['k0'], vals['v0'])]), [vals['tag0']]
    out = {}

    def rt(x, label):
        try:
            j = x.toJson()
            y = type(x).fromJson(j)
            z = type(x).loads(x.dumps())
        except Exception as ex:
            fail('round trip of the %s class raised' % label, type(ex).__name__ + ': ' + str(ex)[:80])
            return
        out[label] = (j, y, z)
    for label in order:
        rt(b if label == 'base' else p, label)
    res = []
    if 'base' in out:
        j, y, z = out['base']
        res.append((And(eq(y.uid, b.uid), eq(y.kind, b.kind), eq(z.uid, b.uid), eq(z.kind, b.kind)), 'the base class round-trips field for field'))
    if 'derived' in out:
        j, y, z = out['derived']
        res.append((sorted(j.keys()) == ['name', 'scores', 'tags'], 'toJson of a derived class holds the fields that class declares'))
        res.append((And(eq(y.name, p.name), eq(y.scores, p.scores), eq(y.tags, p.tags)), 'fromJson(toJson(x)) reproduces a derived class field for field'))
        res.append((And(eq(z.name, p.name), eq(z.scores, p.scores), eq(z.tags, p.tags)), 'loads(dumps(x)) reproduces a derived class field for field'))
    return res


ORDERS = [('base', 'derived'), ('derived', 'base'), ('derived',), ('base', 'derived', 'base', 'derived')]


def l153():
    """a message class derived from another message class has its own typed fields: whichever of the two went through
    JSON first, each round-trips field for field (annotation look-ups cached per class must not leak along the MRO)"""
    Ent, Player = mk_json_hierarchy(Serializable, LEAFT)
    order = ORDERS[choose(len(ORDERS), 'first_use_order')]
    vals = dict(uid=symint('uid'), kind=text.opaque('kind'), name=text.opaque('name'), k0=symint('k0'), v0=symint('v0'), tag0=text.opaque('tag0'))

    def mkdict(items):
        d = SxDict()
        for k, v in items:
            d[k] = v
        return d

    def fail(msg, err):
        core.fail(msg, error=err)
    for cond, msg in _l153_run(Ent, Player, order, vals, mkdict, c13.deq, fail):
        check(cond, msg)


def replay_l153(cfg, m):
    s = real('mpgameserver.serializable')
    Ent, Player = mk_json_hierarchy(s.Serializable, REALT)
    order = ORDERS[[v for k, v in m.items() if k.startswith('first_use_order')][0] if any(k.startswith('first_use_order') for k in m) else 0]
    vals = dict(uid=m.get('uid', 7), kind='kind-\u00e9', name='name-\u4e16', k0=m.get('k0', -3), v0=m.get('v0', 2 ** 40), tag0='t')
    fails = []

    def fail(msg, err):
        fails.append('%s: %s' % (msg, err))

    def And_(*c):
        return all(c)

    def eq(a, b):
        return a == b
    g = _l153_run.__globals__
    saved = g['And']
    g['And'] = And_
    try:
        res = _l153_run(Ent, Player, order, vals, dict, eq, fail)
    finally:
        g['And'] = saved
    fails += [msg for cond, msg in res if not cond]
    return bool(fails), 'order %s: %s' % ('/'.join(order), '; '.join(fails[:3]) or 'ok')


R.add('L15.3', l153, [{}], replay=replay_l153,
      desc='a message class derived from another message class, every order of first use through JSON: both round-trip field for '
           'field by fromJson(toJson) and loads(dumps); toJson of the derived class holds its own declared fields',
      expect=['fromJson(toJson(x)) reproduces a derived class field for field', 'the base class round-trips field for field'],
      bounds='one base class (int, str) and one derived class (str, Dict[int,int], List[str]); 4 orders of use; values symbolic, containers of one element')

# ------------------------------------------------------------------ L15.4 enums with string values
class Confirm(SerializableEnum):
    # string-valued members whose values spell the *names* of other members (case-insensitively)
    A = "b"
    B = "a"
    YES = "no"
    NO = "yes"
    PLAIN = "plain text"


_holder15 = {}


def _confirm_holder(S, E, T):
    key = id(S)
    if key not in _holder15:
        ns = {'__annotations__': {'one': E, 'many': List[E], 'byname': Dict[E, T['int']]}, 'one': None, 'many': None, 'byname': None,
              '__module__': __name__}
        _holder15[key] = type(S)('HConfirm_%d' % len(_holder15), (S,), ns)
    return _holder15[key]


def _l154_run(S, E, T, i, j, mkdict):
    H = _confirm_holder(S, E, T)
    members = [E.A, E.B, E.YES, E.NO, E.PLAIN]
    x = H()
    x.one = members[i]
    x.many = [members[j], members[i]]
    x.byname = mkdict([(members[j], 5)])
    out = []
    for route, fn in (('fromJson(toJson(x))', lambda: H.fromJson(x.toJson())), ('loads(dumps(x))', lambda: H.loads(x.dumps()))):
        try:
            y = fn()
        except Exception as ex:
            out.append((False, '%s raised %s' % (route, type(ex).__name__)))
            continue
        same = (type(y.one) is E and y.one.value == x.one.value and len(y.many) == 2 and
                all(type(a) is E and a.value == b.value for a, b in zip(y.many, x.many)) and
                len(y.byname) == 1 and all(type(k) is E and k.value == members[j].value and v == 5 for k, v in y.byname.items()))
        out.append((bool(same), '%s reproduces enum members whose values are strings' % route))
    return out


def l154():
    """enum members are identified by their name in JSON and come back as the same member - also when an enum's string
    *values* spell the names of other members"""
    i = choose(5, 'member_i')
    j = choose(5, 'member_j')

    def mkdict(items):
        d = SxDict()
        for k, v in items:
            d[k] = v
        return d
    for ok, msg in _l154_run(Serializable, Confirm, LEAFT, i, j, mkdict):
        check(ok, msg if ok or 'raised' not in msg else 'fromJson(toJson(x)) reproduces enum members whose values are strings', detail=msg)


_real_confirm = {}


def replay_l154(cfg, m):
    s = real('mpgameserver.serializable')
    if 'E' not in _real_confirm:
        _real_confirm['E'] = s.SerializableEnumType('RConfirm', (s.SerializableEnum,), {'A': 'b', 'B': 'a', 'YES': 'no', 'NO': 'yes', 'PLAIN': 'plain text', '__module__': __name__}) \
            if hasattr(s, 'SerializableEnumType') else None
    E = _real_confirm['E']
    i = [v for k, v in m.items() if k.startswith('member_i')]
    j = [v for k, v in m.items() if k.startswith('member_j')]
    res = _l154_run(s.Serializable, E, REALT, i[0] if i else 0, j[0] if j else 0, dict)
    bad = [msg for ok, msg in res if not ok]
    return bool(bad), '; '.join(bad) or 'ok'


R.add('L15.4', l154, [{}], replay=replay_l154,
      desc='an enum with string values that spell the names of other members (A="b", B="a", YES="no", NO="yes"): plain field, list and '
           'dict key round-trip to the same members by both JSON routes',
      expect=['fromJson(toJson(x)) reproduces enum members whose values are strings', 'loads(dumps(x)) reproduces enum members whose values are strings'],
      bounds='one enum of 5 string-valued members; 25 member pairs; field shapes: plain, List, Dict key')

for _lid in ['L15.1', 'L15.2', 'L15.3', 'L15.4']:
    if _lid in R.lemmas:
        R.lemmas[_lid].api = True

get_harness = R.get_harness
