"""C10 - server handler lifecycle: connect once, then messages, then disconnect once.

L10.2 the real UdpServerThread.run() driven single-threaded through the real datagram entry point:
two addresses, honest handshakes interleaved with duplicates, garbage, reconnects from the same address,
peer and server-initiated disconnects, silence, handler exceptions, shutdown at different ticks.
L10.3 token generator: every outcome of the RNG, tokens distinct among all clients in both pools.
L10.4 the reactor-thread entry points never reach a handler method.
"""
import z3

import sx
from sx import core, rope
from sx.core import symint, symbool, symreal, check, assume, choose, SxInt, SxBool, E, And, Or, Not, Iff
from sx.models import env_m
from .common import Registry, real, generic_replay
from . import proto, loop
from .proto import conn, ctx_mod, Packet, PacketHeader, PacketType, SeqNum, RetryMode, Status, Rec

R = Registry('C10')
A, B = ('10.0.0.1', 5001), ('10.0.0.2', 5002)
A_ACTIONS = ['reply', 'nothing', 'garbage', 'dup', 'app', 'disconnect', 'rehello', 'silence', 'server_disconnect']


def act(world, peer, action, k):
    c = peer.c
    if action == 'reply':
        peer.absorb()
        raw = peer.emit()
        if raw is not None:
            world.inject(raw, peer.addr)
    elif action == 'app':
        peer.absorb()
        p, L = rope.blob('app_%s_%d' % (peer.addr[1], k), 1, 60)
        c.send(p, RetryMode.NONE, None)
        if c.status == Status.CONNECTED:
            peer.sent_payloads.append(p)
        raw = peer.emit()
        if raw is not None:
            world.inject(raw, peer.addr)
    elif action == 'early_app':
        # a peer that holds the session key (it received the server hello) but does not answer the challenge: whatever it
        # has queued is thrown away and a sealed datagram with an application message is sent instead, typed APP or
        # CHALLENGE_RESP.  It never completed the handshake, so the handler must not hear of it.
        peer.absorb()
        if c.session_key_bytes is not None and any(m.type == PacketType.CHALLENGE_RESP for m in c.outgoing_messages):
            c.outgoing_messages = []
            c.status = Status.CONNECTED
            p = b'early application data'      # concrete: an arbitrary payload could *be* a well-formed challenge response
            c.send(p, RetryMode.NONE, None)
            if bool(symbool('early_two_messages')):
                c.send(b'and a second message', RetryMode.NONE, None)      # count > 1: every message carries its own type
            pkt = c._build_packet_impl(world.clock(), False, 0.1)
            if pkt is not None:
                if bool(symbool('early_typed_challenge')):
                    pkt.hdr.pkt_type = PacketType.CHALLENGE_RESP
                raw = c._encode_packet(pkt)
                peer.last_datagram = raw
                world.inject(raw, peer.addr)
            peer.hostile = True
    elif action == 'dup':
        if peer.last_datagram is not None:
            world.inject(peer.last_datagram, peer.addr)
    elif action == 'garbage':
        kind = choose(3, 'garbage_kind')
        if kind == 0:
            world.inject(b'\x01\x02\x03', peer.addr)
        elif kind == 1:
            world.inject(b'FSOS' + bytes(16) + b'junkjunkjunk', peer.addr)
        else:
            h = PacketHeader.create(False, 1000, PacketType.APP, SeqNum(9), SeqNum(0), 0)
            pkt = Packet.create(h, [conn.PendingMessage(SeqNum(3), PacketType.APP, b'forged', None, RetryMode.NONE)])
            world.inject(pkt.to_bytes(None), peer.addr)
    elif action == 'disconnect':
        peer.absorb()
        c.disconnect()
        raw = peer.emit()
        if raw is not None:
            world.inject(raw, peer.addr)
    elif action == 'rehello':
        peer.new_conn()
        peer.c._sendClientHello()
        world.inject(peer.emit(), peer.addr)
    elif action == 'silence':
        world.clock.advance(6.0)
    elif action == 'server_disconnect':
        sc = world.ctxt.connections.get(peer.addr)
        if sc is not None:
            sc.disconnect()


def l102(ticks, quick):
    pa = pb = None
    choices = {}

    def script(world, tick):
        nonlocal pa, pb
        if tick == 1:
            pa = loop.Peer(world, A)
            pb = loop.Peer(world, B)
            pa.c._sendClientHello()
            world.inject(pa.emit(), A)
            pb.c._sendClientHello()
            world.inject(pb.emit(), B)
            return
        # B: honest and steady
        act(world, pb, 'reply', tick)
        if tick == 5:
            act(world, pb, 'app', tick)
        # A: the explored dimension
        if tick == 2:
            a = ['nothing', 'garbage', 'dup'][choose(3, 'a2')]
        elif tick == 3:
            a = A_ACTIONS[choose(len(A_ACTIONS), 'a3')]
        elif tick == 4:
            acts = A_ACTIONS if not quick else ['reply', 'app', 'disconnect', 'rehello', 'silence', 'server_disconnect']
            a = acts[choose(len(acts), 'a4')]
        elif tick == 5:
            acts = A_ACTIONS if not quick else ['reply', 'app', 'disconnect', 'dup']
            a = acts[choose(len(acts), 'a5')]
        else:
            a = 'reply'
        choices[tick] = a
        act(world, pa, a, tick)

    stop = [ticks, 4][choose(2, 'shutdown_early')]
    world = loop.World(stop, script)
    ri = choose(3 if quick else 4, 'handler_raises_in')
    world.handler.raise_in = [set(), {'connect', 'message'}, {'disconnect', 'update'}, {'message'}][ri]
    world.run()
    ev = world.handler.events
    check(world.escaped is None, 'no exception leaves the server loop (handler exceptions included)', escaped=repr(world.escaped))
    bad = loop.lifecycle_ok(ev)
    check(bad == [], 'every client: connect once, then messages, then disconnect once; starting first, shutdown last',
          violations=bad[:3], script=dict(choices))
    check(len(world.ctxt.connections) == 0, 'after shutdown no client is left in the connection pool')
    # a peer disconnect is acted upon promptly, not only at shutdown: two ticks after the DISCONNECT datagram of a
    # connected client was delivered the client has left the connection pool (and the handler was told)
    if choices.get(5) == 'disconnect' and stop >= 8 and all(choices.get(t) in ('reply', 'app', 'nothing', 'dup', 'garbage') for t in (2, 3, 4)):
        pools = {t: conns for t, conns, temps in world.tick_log}
        if A in pools.get(5, set()):
            check(A not in pools.get(8, {A}), 'a client that sent DISCONNECT is removed from the pool within a few ticks, not only at shutdown')
            sd = [i for i, e in enumerate(ev) if e[0] == 'shutdown']
            da = [i for i, e in enumerate(ev) if e[0] == 'disconnect' and e[1].addr == A]
            check(len(da) >= 1, 'and the handler sees its disconnect event')
    # messages: only from connected clients, only what that peer sent, each at most once
    for e in ev:
        if e[0] == 'message':
            sc, seqn, msg = e[1], e[2], e[3]
            peer = pa if sc.addr == A else pb
            check(any(msg is p or (rope.isrope(msg) and rope.isrope(p) and rope.full_view_blob(msg) is rope.full_view_blob(p)) or
                      (isinstance(msg, bytes) and msg == p) for p in peer.sent_payloads),
                  'a delivered message is one that this client sent')
    for peer in (pa, pb):
        if peer is None:
            continue
        for p in peer.sent_payloads:
            n = sum(1 for e in ev if e[0] == 'message' and (e[3] is p or (rope.isrope(e[3]) and rope.isrope(p) and rope.full_view_blob(e[3]) is rope.full_view_blob(p))
                                                          or (isinstance(p, bytes) and isinstance(e[3], bytes) and e[3] == p and e[1].addr == peer.addr)))
            check(n <= 1, 'each message is handed to the handler at most once')
    # connect only after a completed handshake: the client object holds the key the peer derived
    for e in ev:
        if e[0] == 'connect':
            sc = e[1]
            check(sc.session_key_bytes is not None and sc.token != 0, 'connect only for a client that completed the handshake')
    # B is never disturbed by whatever A does
    connects_b = [e for e in ev if e[0] == 'connect' and e[1].addr == B]
    if stop >= 5 and 'silence' not in choices.values():      # 'silence' stalls the clock for everyone, pending handshakes expire
        check(len(connects_b) == 1, 'the other client connects normally whatever the first one does')


R.add('L10.2', l102, lambda tier: [dict(ticks=8, quick=(tier == 'quick'))],
      desc='real UdpServerThread.run(): two addresses, honest handshakes interleaved with duplicates, garbage, reconnect from '
           'the same address, peer/server disconnect, silence, handler exceptions, early shutdown',
      expect=['every client: connect once, then messages, then disconnect once; starting first, shutdown last',
              'no exception leaves the server loop (handler exceptions included)', 'each message is handed to the handler at most once'],
      bounds='8 ticks; client A: 3 x 9 x 6 x 4 (thorough 3 x 9 x 9 x 9) action sequences; client B honest; handler raising in '
             'connect+message | disconnect+update | nowhere (thorough also message only); shutdown after tick 4 or 8', path_cap=400000)


# ------------------------------------------------------------------ L10.5 a peer that holds the key but skips the challenge
def l105(ticks):
    """client A completes the key exchange (it receives the server hello, so both ends hold the session key) but never
    answers the challenge: instead it sends sealed datagrams that carry application messages - typed APP or CHALLENGE_RESP -
    and keeps talking.  It did not complete the handshake: the handler hears nothing of it (no connect, no message, no
    disconnect, not even at shutdown), while the honest client B is served normally."""
    pa = pb = None
    choices = {}

    def script(world, tick):
        nonlocal pa, pb
        if tick == 1:
            pa = loop.Peer(world, A)
            pb = loop.Peer(world, B)
            pa.c._sendClientHello()
            world.inject(pa.emit(), A)
            pb.c._sendClientHello()
            world.inject(pb.emit(), B)
            return
        act(world, pb, 'reply', tick)
        if tick == 5:
            act(world, pb, 'app', tick)
        if tick == 2:
            a = 'nothing'
        elif tick == 3:
            a = 'early_app'
        elif tick in (4, 5):
            a = ['early_app_again', 'reply', 'dup', 'nothing'][choose(4, 'a%d' % tick)]
        else:
            a = 'reply'
        choices[tick] = a
        if a == 'early_app_again':
            pa.c.send(b'more of the same', RetryMode.NONE, None)
            a = 'reply'
        act(world, pa, a, tick)

    world = loop.World(ticks, script)
    ri = choose(2, 'handler_raises_in')
    world.handler.raise_in = [set(), {'connect', 'message'}][ri]
    world.run()
    ev = world.handler.events
    check(world.escaped is None, 'no exception leaves the server loop (handler exceptions included)', escaped=repr(world.escaped))
    check(getattr(pa, 'hostile', False), 'the peer held the session key and sent application data instead of the challenge response')
    seen = [e[0] for e in ev if e[0] in ('connect', 'message', 'disconnect') and e[1].addr == A]
    check(seen == [], 'no handler event for a peer that never answered the challenge', seen=seen, script=dict(choices))
    check(A not in world.ctxt.connections and all(a != A for t, conns, temps in world.tick_log for a in conns),
          'a peer that never answered the challenge is never in the connection pool')
    bad = loop.lifecycle_ok(ev)
    check(bad == [], 'every client: connect once, then messages, then disconnect once; starting first, shutdown last', violations=bad[:3])
    check(len([e for e in ev if e[0] == 'connect' and e[1].addr == B]) == 1, 'the other client connects normally whatever the first one does')


R.add('L10.5', l105, [dict(ticks=7)],
      desc='real UdpServerThread.run(): a peer that holds the session key but sends sealed application data (typed APP or CHALLENGE_RESP) '
           'instead of the challenge response, and keeps talking: no handler event for it, never in the connection pool; the honest client is served',
      expect=['no handler event for a peer that never answered the challenge',
              'the peer held the session key and sent application data instead of the challenge response'],
      bounds='7 ticks; 2 header types x 4 x 4 follow-up actions (more application data / keep-alives / duplicate / nothing); handler raising in connect+message or nowhere; the application payload is a fixed byte string')


# ------------------------------------------------------------------ L10.6 rejected datagrams do not postpone the silence timeout
# "disconnect exactly once - on ... silence timeout": the sweep reads the connection's liveness clock, so a datagram that is
# rejected (a replay of something already received) must not refresh it, or a dead client fed with replays is never
# disconnected.  Same harness as C04 L4.1 (arbitrary window, duplicate at any offset; the snapshot holds the liveness clock).
from . import c04 as _c04  # noqa: E402

R.add('L10.6', _c04.l41, [dict(rx_is_server=True)], replay=_c04.replay_l41,
      desc='server-side connection, duplicate of a datagram received 0..32767 datagrams ago: rejected without refreshing the liveness '
           'clock that the silence sweep reads',
      expect=['a duplicate datagram has no other effect'],
      bounds='as C04 L4.1')


# ------------------------------------------------------------------ L10.3 tokens
def l103(n):
    ctxt = proto.mk_ctxt()
    toks = []
    for i in range(n):
        c = conn.ServerClientConnection(ctxt, ('h%d' % i, 1000 + i))
        t = symint('token%d' % i, 0x40000000, 0x7fffffff)
        c.token = t
        (ctxt.connections if i % 2 == 0 else ctxt.temp_connections)[c.addr] = c
        toks.append(t)
    e = E()
    e.step_limit = e.ticks + 12      # a few rounds of the uniqueness loop; longer runs of taken values are cut (not claimed)
    try:
        tok = ctxt.get_token()
    except core.StepLimit:
        # the RNG kept returning taken values for the whole step budget: allowed (termination needs a free value)
        raise core.Abort()
    check(tok != 0, 'token is never 0')
    check(And(tok >= 0x40000000, tok <= 0x7fffffff), 'bit 30 set, bit 31 clear')
    for t in toks:
        check(tok != t, 'a new token differs from the token of every client in either pool')


def replay_l103(cfg, m):
    import unittest.mock as um
    import struct
    c = real('mpgameserver.connection')
    cx = real('mpgameserver.context')
    ctxt = cx.ServerContext(real('mpgameserver.handler').EventHandler())
    n = cfg['n']
    toks = []
    for i in range(n):
        cl = c.ServerClientConnection(ctxt, ('h%d' % i, 1000 + i))
        cl.token = m.get('token%d' % i, 0x40000000)
        (ctxt.connections if i % 2 == 0 else ctxt.temp_connections)[cl.addr] = cl
        toks.append(cl.token)
    draws = []
    k = 1
    while 'urandom%d[0]' % k in m:
        draws.append(bytes(m.get('urandom%d[%d]' % (k, j), 0) for j in range(4)))
        k += 1
    draws.append(struct.pack('>L', 0x40000001 if 0x40000001 not in toks else 0x40000002))
    it = iter(draws)
    with um.patch.object(cx.os, 'urandom', lambda nb: next(it)):
        tok = ctxt.get_token()
    return tok in toks or tok == 0, 'get_token() returned %#x while pool tokens are %s' % (tok, [hex(t) for t in toks])


R.add('L10.3', l103, lambda tier: [dict(n=n) for n in ((1, 2) if tier == 'quick' else (1, 2, 3))], replay=replay_l103,
      desc='ServerContext.get_token with os.urandom returning arbitrary bytes and arbitrary tokens in both pools',
      expect=['a new token differs from the token of every client in either pool', 'token is never 0'],
      bounds='<= 2 (thorough 3) clients in the pools, every RNG outcome')


# ------------------------------------------------------------------ L10.4 containment
class Tripwire:
    def __getattr__(self, name):
        def boom(*a, **k):
            core.fail('handler method %s reached from a reactor-thread entry point' % name)
        return boom


def l104():
    ctxt = loop.new_ctxt(Tripwire(), None)
    ts = loop.twisted_mod.TwistedServer(ctxt, ('0.0.0.0', 1), install_signals=False)
    ts.transport = loop.Transport()
    kind = choose(3, 'datagram')
    if kind == 0:
        raw = rope.symbytes('d', 20) + rope.blob('rest', 0, 100)[0]
    elif kind == 1:
        h = PacketHeader.create(False, 1000, getattr(PacketType, ['CLIENT_HELLO', 'APP', 'CHALLENGE_RESP'][choose(3, 't')]), SeqNum(1), SeqNum(0), 0)
        raw = Packet.create(h, []).to_bytes(None)
    else:
        raw = b''
    ts.datagramReceived(raw, ('1.2.3.4', symint('port', 1, 65535)))
    ts.thread._wake()
    check(True, 'entry points returned without touching the handler')
    check(len(ts.transport.out) == 0, 'the entry point itself sends nothing')


R.add('L10.4', l104, [{}], desc='datagramReceived / append / _wake never call a handler method (handler events stay on the loop thread)',
      expect=['entry points returned without touching the handler'])

import sys as _sys  # noqa: E402
from sx.models import stubs_m  # noqa: E402
# concrete replay runs the real run() single-threaded: its Condition is the stand-in whose wait() calls the tick hook
LOOPPATCH = [('mpgameserver.server', 'Condition', stubs_m.Condition), ('mpgameserver.twisted', 'reactor', stubs_m.reactor)]
for _l in R.lemmas.values():
    if _l.replay is None:
        _l.replay = generic_replay(_l.func, [proto, loop, _sys.modules[__name__]], patches=LOOPPATCH)

for _lid in ['L10.2', 'L10.4']:
    if _lid in R.lemmas:
        R.lemmas[_lid].api = True

get_harness = R.get_harness
