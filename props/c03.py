"""C03 - AES-GCM nonces never repeat; nothing but the hellos travels in clear.

L3.1 one _build_packet step from an arbitrary state: rate cap, successor sequence number, nonce layout.
L3.3 arithmetic: packets spaced by the (real, regenerated) send interval cannot wrap the 16-bit
     sequence number inside one clock second, so (ctime, seq) never repeats; direction magic separates
     the two endpoints.
L3.4 every emission path seals with (key, iv = hdr[0:12], aad = hdr[0:20]) unless the packet is the
     signed server hello; payload bytes never appear outside the ciphertext.
L3.5 no application message can ride under a clear (SERVER_HELLO) header.
"""
import z3

import sx
from sx import core, rope
from sx.core import symint, symbool, symreal, symbv, check, assume, choose, SxInt, SxBool, SxReal, E, And, Or, Not, Iff, ite
from sx.models import crypto_m
from .common import Registry, real, generic_replay
from . import proto
from .proto import conn, Packet, PacketHeader, PacketType, SeqNum, RetryMode, Status, Rec, KEY

server_mod = sx.load('server')
twisted_mod = sx.load('twisted')
R = Registry('C03')
TYPES = ['UNKNOWN', 'CLIENT_HELLO', 'SERVER_HELLO', 'CHALLENGE_RESP', 'KEEP_ALIVE', 'DISCONNECT', 'APP', 'APP_FRAGMENT']
EXPLANATION = ('C03 composition: L3.1 shows every packet of one direction is built by one function that enforces '
               't - last_send_time >= send_interval, advances seq by exactly one ring step and writes (magic, int(t), seq, ack) into '
               'bytes 0..11; L3.2 is the solver-checked inductive step (history of c packets spans >= (c-1) intervals) so two packets c ring steps apart are at least c*send_interval apart; equal seq means c is a '
               'multiple of 65535 (C08 L8.1); L3.3 then gives different ctime, hence different nonces; the magic separates the directions.')


# ------------------------------------------------------------------ L3.1
def l31(kind, q):
    last = symreal('last_send', lo=-1, hi=4000000000)
    now = symreal('now', lo=0, hi=4000000000)
    assume(now >= last)
    clock = proto.clock_at(now)
    if kind == 'client':
        c = proto.mk_client_side(clock=clock)
    elif kind == 'server':
        c = proto.mk_server_side(clock=clock)
    else:
        c = proto.mk_base(server=bool(symbool('isServer')), clock=clock)
    proto.havoc_counters(c)
    c.status = [Status.CONNECTED, Status.CONNECTING, Status.DISCONNECTED][choose(3, 'status')]
    c.last_send_time = last
    c.last_send_keep_alive_time = symreal('last_ka', lo=-1, hi=now)
    seq0 = symint('seq0', 0, 65535)
    c.seq_sending = SeqNum(seq0)
    proto.sym_window(c)
    for i in range(q):
        p, L = rope.blob('p%d' % i, 0, 300)
        m = conn.PendingMessage(SeqNum(symint('m%d_seq' % i, 1, 65535)), getattr(PacketType, TYPES[choose(8, 'm%d_type' % i)]), p, None,
                                proto.MODES[choose(3, 'm%d_retry' % i)])
        c.outgoing_messages.append(m)
    if kind == 'server':
        out = c.update()
        pkt = out[0] if out else None
    else:
        pkt = c._build_packet()
    if pkt is None:
        check(c.seq_sending == seq0, 'no packet: sequence number unchanged')
        check(c.last_send_time == last, 'no packet: send clock unchanged')
        return
    check((now - last) >= c.send_interval, 'a packet is built only when the send interval has elapsed (rate cap)')
    check(c.seq_sending == ite(seq0 == 65535, 1, seq0 + 1), 'the sequence number advances by exactly one ring step')
    check(pkt.hdr.seq == c.seq_sending, 'the header carries the new sequence number')
    check(c.last_send_time == now, 'the send clock is set to the build time')
    check(pkt.hdr.ctime == core.SxInt(now) if isinstance(now, SxReal) else pkt.hdr.ctime == int(now), 'ctime is the whole second of the build time')
    raw = pkt.hdr.to_bytes()
    ident = b'FSOC' if c.isServer else b'FSOS'
    want = ident + conn.struct.pack('>LHH', pkt.hdr.ctime, pkt.hdr.seq, pkt.hdr.ack)
    check(raw[:12] == want, 'nonce bytes 0..11 are (direction magic, ctime, seq, ack)')
    check(pkt.hdr.isServer == c.isServer, 'direction magic is a function of the endpoint role only')


R.add('L3.1', l31, lambda tier: [dict(kind=k, q=q) for k in ('base', 'client', 'server') for q in ((0, 1) if tier == 'quick' else (0, 1, 2))],
      desc='_build_packet / ServerClientConnection.update from an arbitrary state and clock',
      expect=['a packet is built only when the send interval has elapsed (rate cap)',
              'the sequence number advances by exactly one ring step', 'nonce bytes 0..11 are (direction magic, ctime, seq, ack)'],
      bounds='arbitrary clocks, sequence number, windows, status; <= 1 (thorough 2) queued messages of any type / retry mode')


# ------------------------------------------------------------------ L3.2 ghost induction over a send history
def l32():
    """ghost counter c of packets built so far and ghost t_first (build time of the first): the invariant
    t_last - t_first >= (c - 1) * send_interval is preserved by every real _build_packet step, for a send
    history of any length (c symbolic); together with L3.1's exact successor this is what L3.3 consumes"""
    c_ = symint('packets_so_far', 1, 10 ** 9)
    t_first = symreal('t_first', lo=0, hi=4000000000)
    t_last = symreal('t_last', lo=0, hi=4000000000)
    now = symreal('now', lo=0, hi=4000000000)
    assume(And(t_last >= t_first, now >= t_last))
    clock = proto.clock_at(now)
    c = proto.mk_base(server=bool(symbool('isServer')), clock=clock)
    I = c.send_interval
    assume((t_last - t_first) >= (c_ - 1) * I)              # induction hypothesis
    c.last_send_time = t_last
    c.last_send_keep_alive_time = symreal('last_ka', lo=-1, hi=now)
    c.seq_sending = SeqNum(symint('seq', 0, 65535))
    if bool(symbool('queued')):
        c.send(b'x', proto.MODES[choose(3, 'retry')], None)
    pkt = c._build_packet()
    if pkt is None:
        check(c.last_send_time == t_last, 'no packet: history unchanged')
        return
    check((c.last_send_time - t_first) >= ((c_ + 1) - 1) * I, 'after the (c+1)-th packet the history is still >= c send intervals long')


R.add('L3.2', l32, [{}], desc='inductive step of the spacing invariant over the real _build_packet (history length symbolic)',
      expect=['after the (c+1)-th packet the history is still >= c send intervals long'])


# ------------------------------------------------------------------ L3.3
def l33():
    c = proto.mk_base()
    I = c.send_interval                      # regenerated from the source on every run
    check(isinstance(I, float) and I > 0, 'send interval is a positive constant')
    ti = symreal('t_i', lo=0, hi=4000000000)
    tj = symreal('t_j', lo=0, hi=4000000000)
    wraps = symint('wraps', 1, 10 ** 6)
    # packets i < j of one direction carry the same seq: j - i is a positive multiple of 65535 (C08),
    # and consecutive packets are >= I apart (L3.1), so:
    assume((tj - ti) >= (wraps * 65535) * I)
    check(core.SxInt(tj) != core.SxInt(ti), 'two packets with the same sequence number have different ctime: nonces never repeat')
    # the ring has no shorter period
    a = SeqNum(symint('a', 1, 65535))
    k = symint('k', 1, 65534)
    check((a + k) != a, 'the sequence ring has period 65535: fewer steps never return to the same value')


R.add('L3.3', l33, [{}], desc='arithmetic lemma with the real send interval: one wrap takes longer than a clock second',
      expect=['two packets with the same sequence number have different ctime: nonces never repeat',
              'the sequence ring has period 65535: fewer steps never return to the same value'])


# ------------------------------------------------------------------ L3.4 emission paths
class Transport:
    def __init__(self):
        self.out = []

    def write(self, datagram, addr):
        self.out.append((datagram, addr))


def l34(path):
    hdr = PacketHeader()
    hdr.isServer = bool(symbool('isServer'))
    hdr.ctime = symint('ctime', 0, 2 ** 32 - 1)
    tname = TYPES[choose(8, 'type')]
    hdr.pkt_type = getattr(PacketType, tname)
    hdr.seq = SeqNum(symint('seq', 0, 65535))
    hdr.ack = SeqNum(symint('ack', 0, 65535))
    hdr.ack_bits = symint('ack_bits', 0, 2 ** 32 - 1)
    n = choose(3, 'nmsgs')
    msgs = []
    blobs = []
    for i in range(n):
        p, L = rope.blob('p%d' % i, 1, 400)
        blobs.append(p)
        msgs.append(conn.PendingMessage(SeqNum(symint('m%d_seq' % i, 1, 65535)), PacketType.APP if i else hdr.pkt_type, p, None, RetryMode.NONE))
    pkt = Packet.create(hdr, msgs)
    key = rope.fixed_blob('session_key', 16)
    if path == 'client':
        c = proto.mk_client_side(key=key)
        raw = c._encode_packet(pkt)
    elif path == 'server_thread':
        sock = server_mod.socket.socket()
        th = server_mod.UdpServerThread(sock, proto.mk_ctxt())
        th.send([(pkt, key, ('cli', 7))])
        raw = sock.sent[0][0]
    else:
        ts = twisted_mod.TwistedServer(proto.mk_ctxt(), ('0.0.0.0', 1))
        ts.transport = Transport()
        ts.sendPacketsUnsafe([(pkt, key, ('cli', 7))])
        raw = ts.transport.out[0][0]
    log = crypto_m.aead_log()
    hb = hdr.to_bytes()
    if tname == 'SERVER_HELLO':
        check(len(log) == 0, 'the signed server hello is the only packet type sent without encryption')
        return
    check(len(log) == 1, 'every other packet is sealed exactly once')
    rec = log[0]
    check(rec['alg'] == 'gcm', 'AES-GCM is used')
    check(rec['key'] == key, 'sealed under the session key')
    check(rec['iv'] == hb[:12], 'nonce is header bytes 0..11')
    check(rec['aad'] == hb, 'the whole 20-byte header is authenticated')
    check(rec['pt'] == pkt.msg, 'the whole message area is encrypted')
    ct = rope.mk([('view', rec['blob'], z3.IntVal(0), rec['blob'].length)])
    check(raw == hb + ct, 'the datagram is header ++ ciphertext, nothing else')
    for p in rope.pieces_of(raw):
        check(not (p[0] == 'view' and p[1].name.startswith('p')), 'application bytes never appear outside the ciphertext')


def replay_l34(cfg, m):
    """concrete: build one packet of the model's type, send it through the same path, decrypt with the key:
    AES-GCM under (key, hdr[:12], hdr) must open it, and the payload must not be visible in the datagram"""
    c = real('mpgameserver.connection')
    from cryptography.hazmat.primitives.ciphers.aead import AESGCM
    tname = TYPES[[v for k, v in m.items() if k.startswith('type')][0]]
    n = [v for k, v in m.items() if k.startswith('nmsgs')][0]
    hdr = c.PacketHeader.create(bool(m.get('isServer')), m.get('ctime', 0), getattr(c.PacketType, tname), c.SeqNum(m.get('seq', 1)),
                                c.SeqNum(m.get('ack', 0)), m.get('ack_bits', 0))
    payloads = [bytes([65 + i]) * max(8, min(400, m.get('p%d_len' % i, 8))) for i in range(n)]
    msgs = [c.PendingMessage(c.SeqNum(m.get('m%d_seq' % i, 1)), c.PacketType.APP if i else hdr.pkt_type, payloads[i], None, c.RetryMode.NONE) for i in range(n)]
    pkt = c.Packet.create(hdr, msgs)
    key = b'k' * 16
    path = cfg['path']
    if path == 'client':
        cn = c.ClientServerConnection(('s', 1))
        cn.session_key_bytes = key
        raw = cn._encode_packet(pkt)
    elif path == 'server_thread':
        sv = real('mpgameserver.server')

        class S:
            sent = []

            def sendto(self, d, a):
                self.sent.append(d)
        s_ = S()
        th = sv.UdpServerThread(s_, real('mpgameserver.context').ServerContext(real('mpgameserver.handler').EventHandler()))
        th.send([(pkt, key, ('c', 1))])
        raw = s_.sent[0]
    else:
        tw = real('mpgameserver.twisted')
        ts = tw.TwistedServer(real('mpgameserver.context').ServerContext(real('mpgameserver.handler').EventHandler()), ('0.0.0.0', 1))
        ts.transport = Transport()
        ts.sendPacketsUnsafe([(pkt, key, ('c', 1))])
        raw = ts.transport.out[0][0]
    if tname == 'SERVER_HELLO':
        return False, 'server hello is allowed in clear'
    leak = any(p in raw for p in payloads)
    try:
        pt = AESGCM(key).decrypt(raw[:12], raw[20:], raw[:20])
        sealed = pt == pkt.msg
    except Exception:
        sealed = False
    return leak or not sealed, 'type %s via %s: payload visible=%s, opens with (key, hdr[:12], hdr[:20])=%s' % (tname, path, leak, sealed)


R.add('L3.4', l34, [dict(path=p) for p in ('client', 'server_thread', 'twisted')], replay=replay_l34,
      desc='every emission path seals with (key, hdr[0:12], hdr[0:20]) unless the packet is the server hello',
      expect=['the whole 20-byte header is authenticated', 'application bytes never appear outside the ciphertext',
              'the signed server hello is the only packet type sent without encryption'],
      bounds='packet of any type with 0..2 messages, opaque payloads 1..400 bytes')


# ------------------------------------------------------------------ L3.5
def l35():
    """send() on a connection that is not CONNECTED queues nothing, so an application message can never
    share a packet with (and inherit the clear header of) a queued server hello"""
    clock = proto.clock_at(100.0)
    c = proto.mk_server_side(clock=clock, status=[Status.CONNECTING, Status.DISCONNECTED, Status.DISCONNECTING, Status.DROPPED][choose(4, 'status')])
    hello = conn.PendingMessage(SeqNum(1), PacketType.SERVER_HELLO, rope.blob('hello', 100, 400)[0], None, RetryMode.NONE)
    c.outgoing_messages.append(hello)
    p, L = rope.blob('p', 0, 3000)
    mode = proto.MODES[choose(3, 'retry')]
    which = choose(2, 'api')
    if which == 0:
        c.send(p, mode, None)
    else:
        c.send_guaranteed(p, None)
    check(len(c.outgoing_messages) == 1 and c.outgoing_messages[0] is hello, 'send() before the connection is established queues nothing')
    pkt = c._build_packet_impl(100.0, True, 0.1)
    check(pkt is not None and pkt.hdr.pkt_type == PacketType.SERVER_HELLO and len(pkt.msgs) == 1, 'the clear packet carries exactly the hello')


R.add('L3.5', l35, [{}], desc='no application message is queued while a server hello can still be queued',
      expect=['send() before the connection is established queues nothing', 'the clear packet carries exactly the hello'])

import sys as _sys  # noqa: E402
for _l in R.lemmas.values():
    if _l.replay is None:
        _l.replay = generic_replay(_l.func, [proto, _sys.modules[__name__]])

get_harness = R.get_harness
