"""C02 - handshake authenticates the server, agrees one key, promotes on proof of key.

ECDSA is ideal (verify passes iff the signature blob was produced by sign() of the matching
private key over equal data), ECDH/HKDF are uninterpreted functions, the attacker owns any number of
other key pairs.  L2.1 client vs every combination of (root key field, payload, signature) an active
attacker can assemble; L2.2 honest three-datagram run through the real code on both sides;
L2.3 promotion of a temp connection.
"""
import z3

import sx
from sx import core, rope
from sx.core import symint, symbool, symreal, symbv, check, assume, choose, SxInt, SxBool, E, And, Or, Not, Iff
from sx.models import crypto_m, env_m
from .common import Registry, real, generic_replay
from . import proto
from .proto import conn, ctx_mod, Packet, PacketHeader, PacketType, SeqNum, RetryMode, Status, Rec, KEY, KEY2

ser = sx.load('serializable')
crypto = conn.crypto
BytesIO = ser.BytesIO
R = Registry('C02')
ASSUMPTIONS = ['ECDSA ideal: verify passes iff the signature was produced by sign() of the matching private key over equal data',
               'ECDH symmetric uninterpreted function of the two key identities; HKDF uninterpreted function of (salt, info, length, secret)',
               'the attacker knows everything but the private keys and owns arbitrarily many other key pairs',
               'AES-GCM ideal (as in C01)']


def newkey(name):
    return proto.new_key(name)


def hello_payload(eph_pub, salt, token):
    tmp = BytesIO()
    ser.serialize_value(tmp, eph_pub.getBytes())
    ser.serialize_value(tmp, salt)
    ser.serialize_value(tmp, token)
    return tmp.getvalue()


def hello_message(root_field, payload, signature):
    st = BytesIO()
    st.write(conn.struct.pack('>H', conn.HandshakeServerHelloMessage.type_id))
    ser.serialize_value(st, root_field)
    ser.serialize_value(st, payload)
    ser.serialize_value(st, signature)
    return st.getvalue()


# ------------------------------------------------------------------ L2.1
def l21(via):
    clock = proto.clock_at(100.0)
    root = newkey('root')                      # the server's root key: its public half is pinned in the client
    evil_root = newkey('evilroot')             # attacker-owned
    srv_eph = newkey('srv_eph')
    evil_eph = newkey('evil_eph')
    c = conn.ClientServerConnection(('srv', 9))
    c.clock = clock
    c.setServerPublicKey(root.getPublicKey())
    cb = Rec('connect')
    c.connection_callback = cb
    c._sendClientHello()
    c.outgoing_messages = []
    token = symint('token', 0, 2 ** 31 - 1)
    P = hello_payload(srv_eph.getPublicKey(), rope.fixed_blob('salt', 16), token)
    sigP = root.sign(P)
    P2 = hello_payload(evil_eph.getPublicKey(), rope.fixed_blob('salt2', 16), symint('token2', 0, 2 ** 31 - 1))
    sigP2_evil = evil_root.sign(P2)
    rf = choose(3, 'root_field')
    root_field = [root.getPublicKey().getBytes(), evil_root.getPublicKey().getBytes(), rope.blob('garbage_key', 0, 120)[0]][rf]
    pi = choose(2, 'payload')
    payload = [P, P2][pi]
    si = choose(4, 'signature')
    signature = [sigP, sigP2_evil, rope.blob('garbage_sig', 0, 80)[0], b''][si]
    msg = hello_message(root_field, payload, signature)
    assume(Not(rope.rope_eq(P, P2)))           # an attacker payload byte-identical to the genuine one *is* the genuine one
    genuine = (pi == 0 and si == 0)
    if via == 'datagram':
        # through the wire: the attacker builds a well-formed CRC datagram around the message
        h = PacketHeader.create(True, 100, PacketType.SERVER_HELLO, SeqNum(symint('a_seq', 1, 65535)), SeqNum(0), 0)
        pkt = Packet.create(h, [conn.PendingMessage(SeqNum(symint('a_mseq', 1, 65535)), PacketType.SERVER_HELLO, msg, None, RetryMode.NONE)])
        raw = pkt.to_bytes(None)
        hdr = PacketHeader.from_bytes(False, raw)
        try:
            c._recv_datagram(hdr, raw)
        except Exception as ex:
            pass
    else:
        try:
            c._recvServerHello(msg)
        except Exception as ex:
            pass
    accepted = (c.status == Status.CONNECTED) or (c.session_key_bytes is not None)
    check(Or(Not(accepted), genuine), 'the client connects / adopts a key only from a hello signed by the pinned key over these parameters')
    check(c.server_public_key is not None and c.server_public_key.getBytes() == root.getPublicKey().getBytes(),
          'the pinned key is configuration: nothing a hello carries replaces it')
    if genuine and rf != 2:
        check(c.status == Status.CONNECTED and c.session_key_bytes is not None, 'the genuine hello is accepted')
        check(c.token == token, 'the client adopts the token of the genuine hello')
        check(cb.calls == [True], 'connect callback(True) once')
        check(len([m for m in c.outgoing_messages if m.type == PacketType.CHALLENGE_RESP]) == 1, 'one challenge response is queued')
    if not accepted:
        check(c.status in (Status.CONNECTING, Status.DISCONNECTED), 'a rejected hello leaves the client unconnected')
        check(c.session_key_bytes is None and c.token == 0, 'a rejected hello leaves no key and no token')
        check(len(c.outgoing_messages) == 0, 'no challenge response for a rejected hello')
        check(True not in cb.calls, 'connect callback never reports success for a rejected hello')


def replay_l21(cfg, m):
    """concrete: real P-256 keys; the attacker assembles the combination the model chose"""
    c = real('mpgameserver.connection')
    s = real('mpgameserver.serializable')
    cr = real('mpgameserver.crypto')
    import io
    import os

    def ch(p):
        return [v for k, v in m.items() if k.startswith(p + '#')][0]
    root, evil_root, srv_eph, evil_eph = (cr.EllipticCurvePrivateKey.new() for _ in range(4))

    def payload(eph, salt, token):
        t = io.BytesIO()
        s.serialize_value(t, eph.getPublicKey().getBytes())
        s.serialize_value(t, salt)
        s.serialize_value(t, token)
        return t.getvalue()
    P = payload(srv_eph, os.urandom(16), m.get('token', 1))
    P2 = payload(evil_eph, os.urandom(16), m.get('token2', 2))
    root_field = [root.getPublicKey().getBytes(), evil_root.getPublicKey().getBytes(), os.urandom(min(120, m.get('garbage_key_len', 5)))][ch('root_field')]
    pi, si = ch('payload'), ch('signature')
    pl = [P, P2][pi]
    sig = [root.sign(P), evil_root.sign(P2), os.urandom(min(80, m.get('garbage_sig_len', 8))), b''][si]
    st = io.BytesIO()
    st.write(c.struct.pack('>H', c.HandshakeServerHelloMessage.type_id))
    for f in (root_field, pl, sig):
        s.serialize_value(st, f)
    cl = c.ClientServerConnection(('srv', 9))
    cl.setServerPublicKey(root.getPublicKey())
    calls = []
    cl.connection_callback = calls.append
    cl._sendClientHello()
    cl.outgoing_messages = []
    try:
        cl._recvServerHello(st.getvalue())
    except Exception:
        pass
    accepted = cl.status == c.ConnectionStatus.CONNECTED or cl.session_key_bytes is not None
    genuine = pi == 0 and si == 0
    bad = (accepted and not genuine) or (not accepted and (cl.outgoing_messages or True in calls or cl.token != 0))
    if genuine and ch('root_field') != 2:
        bad = bad or not accepted
    pin_kept = cl.server_public_key is not None and cl.server_public_key.getBytes() == root.getPublicKey().getBytes()
    bad = bad or not pin_kept
    return bool(bad), 'root_field=%d payload=%d signature=%d -> accepted=%s pin kept=%s' % (ch('root_field'), pi, si, accepted, pin_kept)


R.add('L2.1', l21, [dict(via='message'), dict(via='datagram')], replay=replay_l21,
      desc='client with a pinned key vs every (root key field, payload, signature) combination an attacker can assemble',
      expect=['the client connects / adopts a key only from a hello signed by the pinned key over these parameters',
              'the genuine hello is accepted', 'a rejected hello leaves no key and no token'],
      bounds='root field: pinned / foreign / garbage; payload: genuine / attacker-made; signature: genuine / by a foreign key / garbage / empty')


# ------------------------------------------------------------------ L2.1b two hellos in one connect attempt
def l21b():
    """the client keeps being pumped after a refused hello: a second hello (any combination again, new
    datagram or the same one) is judged exactly like the first - the pin and the state survive a refusal"""
    clock = proto.clock_at(100.0)
    root, evil_root, srv_eph, evil_eph = newkey('root'), newkey('evilroot'), newkey('srv_eph'), newkey('evil_eph')
    c = conn.ClientServerConnection(('srv', 9))
    c.clock = clock
    c.setServerPublicKey(root.getPublicKey())
    cb = Rec('connect')
    c.connection_callback = cb
    c._sendClientHello()
    c.outgoing_messages = []
    P = hello_payload(srv_eph.getPublicKey(), rope.fixed_blob('salt', 16), symint('token', 0, 2 ** 31 - 1))
    P2 = hello_payload(evil_eph.getPublicKey(), rope.fixed_blob('salt2', 16), symint('token2', 0, 2 ** 31 - 1))
    assume(Not(rope.rope_eq(P, P2)))
    sigs = [root.sign(P), evil_root.sign(P2)]
    any_genuine = False
    for k in range(2):
        rf = choose(2, 'root_field%d' % k)
        combo = choose(3, 'combo%d' % k)        # 0 genuine, 1 attacker parameters self-signed, 2 attacker parameters + genuine signature
        payload, signature = [(P, sigs[0]), (P2, sigs[1]), (P2, sigs[0])][combo]
        msg = hello_message([root.getPublicKey().getBytes(), evil_root.getPublicKey().getBytes()][rf], payload, signature)
        h = PacketHeader.create(True, 100, PacketType.SERVER_HELLO, SeqNum(5 + choose(2, 'same_seq%d' % k)), SeqNum(0), 0)
        pkt = Packet.create(h, [conn.PendingMessage(SeqNum(5 + k), PacketType.SERVER_HELLO, msg, None, RetryMode.NONE)])
        raw = pkt.to_bytes(None)
        try:
            c._recv_datagram(PacketHeader.from_bytes(False, raw), raw)
        except Exception:
            pass
        any_genuine = any_genuine or combo == 0
        accepted = (c.status == Status.CONNECTED) or (c.session_key_bytes is not None)
        check(Or(Not(accepted), any_genuine), 'no sequence of forged hellos makes the client connect or adopt a key')
        check(Or(any_genuine, True not in cb.calls), 'no success callback without a genuine hello')


R.add('L2.1b', l21b, [{}], desc='two hellos delivered in one connect attempt (forged then forged / genuine, same or new datagram)',
      expect=['no sequence of forged hellos makes the client connect or adopt a key'],
      bounds='2 deliveries x (2 root fields x 3 payload/signature combinations x same/new datagram seq)')


# ------------------------------------------------------------------ L2.2 honest run
def l22():
    clock = proto.clock_at(100.0)
    handler = proto.Handler()
    root = newkey('root')
    ctxt = ctx_mod.ServerContext(handler, root)
    cl = conn.ClientServerConnection(('srv', 9))
    cl.clock = clock
    cl.setServerPublicKey(root.getPublicKey())
    cb = Rec('connect')
    cl.connection_callback = cb
    addr = ('cli', 7)
    sv = conn.ServerClientConnection(ctxt, addr)
    sv.clock = clock
    ctxt.temp_connections[addr] = sv
    # 1. client hello
    cl._sendClientHello()
    d1 = cl._encode_packet(cl._build_packet())
    check(rope.sx_len(d1) == Packet.MAX_PAYLOAD_SIZE + 4, 'the client hello is padded to the documented size')
    sv._recv_datagram(PacketHeader.from_bytes(True, d1), d1)
    check(sv.session_key_bytes is not None and sv.status == Status.CONNECTING, 'server side derives a key and waits for the challenge')
    check(handler.events == [], 'no connect event before the challenge response')
    # 2. server hello
    clock.advance(0.05)
    d2 = sv._encode_packet(sv._build_packet())
    check(rope.sx_len(d2) < rope.sx_len(d1), 'the server hello is smaller than the client hello (no amplification)')
    cl._recv_datagram(PacketHeader.from_bytes(False, d2), d2)
    check(cl.status == Status.CONNECTED, 'client connected after the signed hello')
    check(cl.session_key_bytes == sv.session_key_bytes, 'both ends hold the same session key')
    check(rope.sx_len(cl.session_key_bytes) == 16, 'the session key is 16 bytes')
    check(all(n == 16 for n in E().tags.get('hkdf_lengths', [])), 'HKDF is asked for a 16-byte key')
    check(And(cl.token == sv.token, sv.token != 0), 'both ends hold the same token')
    check(cb.calls == [True], 'client connect callback(True)')
    # 3. challenge response
    clock.advance(0.05)
    d3 = cl._encode_packet(cl._build_packet())
    log = crypto_m.aead_log()
    check(len(log) == 1 and log[0]['key'] == cl.session_key_bytes, 'the challenge response is sealed under the session key')
    sv._recv_datagram(PacketHeader.from_bytes(True, d3), d3)
    check(sv.status == Status.CONNECTED, 'server side connected after the challenge response')
    check(addr in ctxt.connections and addr not in ctxt.temp_connections, 'the client is promoted to the connection pool')
    check(handler.events == [('connect', sv)], 'exactly one connect event, for this client')


R.add('L2.2', l22, [{}], desc='honest handshake: three real datagrams through the real code on both sides',
      expect=['both ends hold the same session key', 'both ends hold the same token', 'exactly one connect event, for this client',
              'the server hello is smaller than the client hello (no amplification)'])


# ------------------------------------------------------------------ L2.3 promotion
def l23():
    clock = proto.clock_at(100.0)
    handler = proto.Handler()
    ctxt = ctx_mod.ServerContext(handler, newkey('root'))
    addr = ('cli', 7)
    sv = conn.ServerClientConnection(ctxt, addr)
    sv.clock = clock
    sv.status = Status.CONNECTING
    issued = symint('issued_token', 1, 2 ** 31 - 1)
    sv.token = issued
    key = rope.fixed_blob('conn_key', 16)
    sv.session_key_bytes = key
    ctxt.temp_connections[addr] = sv
    # another handshake in progress from another address
    other = conn.ServerClientConnection(ctxt, ('other', 8))
    other.status = Status.CONNECTING
    other.token = symint('other_token', 1, 2 ** 31 - 1)
    other.session_key_bytes = rope.fixed_blob('other_key', 16)
    ctxt.temp_connections[other.addr] = other
    wrong = rope.fixed_blob('wrong_key', 16)
    assume(And(Not(rope.rope_eq(key, wrong)), Not(rope.rope_eq(key, other.session_key_bytes))))   # different keys are different
    # the peer: holds some key and answers with some token, in a datagram of some type
    peer = proto.mk_base(server=False, clock=clock, key=[key, wrong, other.session_key_bytes][choose(3, 'peer_key')])
    tname = ['CHALLENGE_RESP', 'APP', 'KEEP_ALIVE', 'DISCONNECT'][choose(4, 'dgram_type')]
    reply = conn.HandshakeClientChallengeResponseMessage()
    answered = symint('answered_token', 0, 2 ** 31 - 1)
    reply.token = answered
    peer._send_type(getattr(PacketType, tname), reply.dumpb(), RetryMode.NONE, None)
    pkt = peer._build_packet_impl(100.0, False, 0.1)
    raw = peer._encode_packet(pkt)
    try:
        sv._recv_datagram(PacketHeader.from_bytes(True, raw), raw)
    except Exception:
        pass
    promoted = addr in ctxt.connections
    connects = [e for e in handler.events if e[0] == 'connect']
    proof = And(tname == 'CHALLENGE_RESP', peer.session_key_bytes is key, answered == issued)
    check(Iff(promoted, proof), 'promotion <=> CHALLENGE_RESP sealed under the key of this connection carrying the issued token')
    check((len(connects) == 1) == promoted and all(e[1] is sv for e in connects), 'connect event exactly when promoted, for this client')
    check(Iff(promoted, sv.status == Status.CONNECTED), 'CONNECTED status only with promotion')
    check(other.addr in ctxt.temp_connections and other.addr not in ctxt.connections, 'other pending handshakes are untouched')
    if promoted:
        # a second, identical proof does not produce a second connect event
        peer2 = proto.mk_base(server=False, clock=clock, key=key)
        peer2.seq_sending = peer.seq_sending
        peer2.seq_message = peer.seq_message
        peer2._send_type(PacketType.CHALLENGE_RESP, reply.dumpb(), RetryMode.NONE, None)
        raw2 = peer2._encode_packet(peer2._build_packet_impl(100.0, False, 0.1))
        try:
            sv._recv_datagram(PacketHeader.from_bytes(True, raw2), raw2)
        except Exception:
            pass
        check(len([e for e in handler.events if e[0] == 'connect']) == 1, 'connect is reported at most once per client')


R.add('L2.3', l23, [{}], desc='temp connection + datagram from its address: promotion only on proof of key and token',
      expect=['promotion <=> CHALLENGE_RESP sealed under the key of this connection carrying the issued token',
              'connect is reported at most once per client'],
      bounds='peer key: right / wrong / key of another pending handshake; 4 datagram types; tokens symbolic')


# ------------------------------------------------------------------ L2.5 the pin survives a reconnect
def l25():
    """UdpClient built with the server's key; first connect attempt: the hello that arrives is any combination an
    attacker can assemble around genuine material (including a genuine signed payload with a foreign key in the
    unsigned root-key field); then the application reconnects with the same UdpClient and the attacker answers with a
    hello signed by its own key.  The second attempt is refused: the pin is configuration and survives."""
    clock = proto.clock_at(100.0)
    root = newkey('root')
    evil_root = newkey('evilroot')
    srv_eph = newkey('srv_eph')
    evil_eph = newkey('evil_eph')
    u = proto.client_mod.UdpClient(root.getPublicKey())
    u.connect(('srv', 9), None)
    c1 = u.conn
    c1.clock = clock
    P = hello_payload(srv_eph.getPublicKey(), rope.fixed_blob('salt', 16), symint('token', 1, 2 ** 31 - 1))
    sigP = root.sign(P)
    root_field = [root.getPublicKey().getBytes(), evil_root.getPublicKey().getBytes()][choose(2, 'root_field')]
    first = hello_message(root_field, P, sigP)          # verifies under the pin whatever the unsigned field says
    try:
        c1._recvServerHello(first)
    except Exception:
        pass
    check(c1.status == Status.CONNECTED, 'the first handshake (genuine signature) is accepted')
    # the link drops / the application reconnects, with or without tearing the old connection down first
    if bool(symbool('force_disconnect_first')):
        u.forceDisconnect()
    u.connect(('srv', 9), None)
    c2 = u.conn
    c2.clock = clock
    check(c2 is not c1, 'connect() starts a new connection')
    check(c2.server_public_key is not None and c2.server_public_key.getBytes() == root.getPublicKey().getBytes(),
          'the new connection is pinned to the key the client was configured with')
    P2 = hello_payload(evil_eph.getPublicKey(), rope.fixed_blob('salt2', 16), symint('token2', 1, 2 ** 31 - 1))
    second = hello_message(evil_root.getPublicKey().getBytes(), P2, evil_root.sign(P2))
    try:
        c2._recvServerHello(second)
    except Exception:
        pass
    check(c2.status != Status.CONNECTED and c2.session_key_bytes is None,
          'after a reconnect a hello signed by a foreign key is still refused (no connection, no key)')


R.add('L2.5', l25, [{}],
      desc='UdpClient with a pinned key: first hello genuine-signed with the pinned or a foreign key in the unsigned root-key field, '
           'then reconnect (with / without forceDisconnect) and a hello signed by the foreign key: refused',
      expect=['after a reconnect a hello signed by a foreign key is still refused (no connection, no key)',
              'the new connection is pinned to the key the client was configured with'],
      bounds='two connect attempts on one UdpClient; unsigned root-key field pinned / foreign')


# ------------------------------------------------------------------ L2.4 no promotion without a key
TYPES24 = ['CLIENT_HELLO', 'SERVER_HELLO', 'CHALLENGE_RESP', 'KEEP_ALIVE', 'DISCONNECT', 'APP', 'APP_FRAGMENT']


def l24(count):
    """a server-side connection that holds no session key yet (fresh, as the server thread creates it for an unknown
    address) receives one unencrypted, CRC-valid datagram assembled by an attacker: any header type, one or two
    inner messages of any types, bodies taken from well-formed hellos (any protocol version, attacker key), well-formed
    challenge responses (any token) or a few arbitrary bytes.  Whatever it is, the peer is not reported connected:
    promotion needs a challenge response that decrypts under the connection's key."""
    clock = proto.clock_at(100.0)
    handler = proto.Handler()
    ctxt = ctx_mod.ServerContext(handler, newkey('root'))
    addr = ('cli', 7)
    sv = conn.ServerClientConnection(ctxt, addr)
    sv.clock = clock
    ctxt.temp_connections[addr] = sv
    atk = newkey('attacker')
    msgs = []
    htype = getattr(PacketType, TYPES24[choose(len(TYPES24), 'header_type')])
    for i in range(count):
        typ = htype if count == 1 else getattr(PacketType, TYPES24[choose(len(TYPES24), 'type%d' % i)])
        kind = choose(3, 'body%d' % i)
        if kind == 0:
            m = conn.HandshakeClientHelloMessage()
            m.client_pubkey = atk.getPublicKey()
            m.client_version = symint('version%d' % i, 0, 65535)
            body = m.dumpb()
        elif kind == 1:
            m = conn.HandshakeClientChallengeResponseMessage()
            m.token = symint('token%d' % i, 0, 2 ** 31 - 1)
            body = m.dumpb()
        else:
            body, nb = rope.blob('junk%d' % i, 0, 3)
        msgs.append(conn.PendingMessage(SeqNum(symint('mseq%d' % i, 1, 65535)), typ, body, None, RetryMode.NONE))
    hdr = PacketHeader.create(False, 100, htype, SeqNum(symint('seq', 1, 65535)), SeqNum(symint('ack', 0, 65535)),
                              symint('ack_bits', 0, 2 ** 32 - 1))
    pkt = Packet.create(hdr, msgs)
    raw = pkt.to_bytes(None)
    status0 = sv.status
    try:
        sv._recv_datagram(PacketHeader.from_bytes(True, raw), raw)
    except Exception:
        pass
    connects = [e for e in handler.events if e[0] == 'connect']
    check(addr not in ctxt.connections, 'an unauthenticated datagram does not promote the peer to the connection pool')
    check(connects == [], 'no connect event from an unauthenticated datagram')
    check(sv.status != Status.CONNECTED, 'the connection is not CONNECTED without a proof of key')
    check(len(sv.incoming_messages) == 0 and len(sv.received_fragments) == 0,
          'nothing that travels in a clear-text datagram next to a hello reaches the application')
    if sv.session_key_bytes is None:
        check(sv.token == 0, 'no token is issued without a key exchange')
    else:
        check(And(sv.status == Status.CONNECTING, sv.token != 0), 'a key exists only after a hello of the supported version; the peer still awaits the challenge')
        check(count == 1 and htype == PacketType.CLIENT_HELLO, 'only the single client hello starts a key exchange')


R.add('L2.4', l24, [dict(count=1), dict(count=2)],
      desc='keyless server-side connection vs one unencrypted attacker datagram (any header type, 1-2 inner messages of any '
           'type: hello of any version / challenge response with any token / junk): never promoted, no connect event',
      expect=['an unauthenticated datagram does not promote the peer to the connection pool',
              'only the single client hello starts a key exchange'],
      bounds='1 or 2 inner messages; 7 packet types; protocol version, token, sequence numbers, ack fields symbolic; junk <= 3 bytes')

# ------------------------------------------------------------------ L2.6 after the handshake a clear-text hello is not processed again
# "both ends hold the same key and token" must stay true: a client that already holds the session key does not run the hello
# handler on an unencrypted SERVER_HELLO-typed datagram (a genuine hello replayed from another session would re-key it).
# Same harness as C01 L1.1, instance (client endpoint, header type SERVER_HELLO).
from . import c01 as _c01  # noqa: E402

R.add('L2.6', _c01.l11, [dict(kind='client', tname='SERVER_HELLO', maxcount=2)],
      desc='client that holds a session key vs a clear-text SERVER_HELLO-typed datagram (free header, arbitrary body, valid CRC): not '
           'accepted, key / token / status unchanged - a hello is processed once per connection',
      expect=['a datagram not produced with the session key is not accepted',
              'a forged datagram leaves key, status, liveness clock, windows, queues and pending sends untouched'],
      bounds='as C01 L1.1 for this instance')
R.lemmas['L2.6'].replay = generic_replay(_c01.l11, [proto, _c01])

import sys as _sys  # noqa: E402
for _l in R.lemmas.values():
    if _l.replay is None:
        _l.replay = generic_replay(_l.func, [proto, _sys.modules[__name__]])

for _lid in ['L2.1', 'L2.1b', 'L2.2', 'L2.4', 'L2.5']:
    if _lid in R.lemmas:
        R.lemmas[_lid].api = True

get_harness = R.get_harness
