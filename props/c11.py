"""C11 - hostile datagrams cannot stop the server, hurt other clients or be amplified.

L11.1 the datagram entry point is total; block-listed addresses are dropped before any processing.
L11.2/L11.3 the real server loop under hostile traffic from address A (new / handshaking / connected)
      while B is an established honest client: the loop survives, B's service and state are untouched.
L11.4 anti-amplification with a symbolic MTU: a reply is queued only for a full-size hello, it is
      smaller than that hello, and an unconnected address gets nothing else.
"""
import z3

import sx
from sx import core, rope
from sx.core import symint, symbool, symreal, check, assume, choose, SxInt, SxBool, E, And, Or, Not, Iff
from sx.models import env_m, stubs_m
from .common import Registry, real, generic_replay
from . import proto, loop
from .proto import conn, ctx_mod, Packet, PacketHeader, PacketType, SeqNum, RetryMode, Status, Rec

ser = sx.load('serializable')
R = Registry('C11')
A, B = ('6.6.6.6', 666), ('10.0.0.2', 5002)
TYPES = ['UNKNOWN', 'CLIENT_HELLO', 'SERVER_HELLO', 'CHALLENGE_RESP', 'KEEP_ALIVE', 'DISCONNECT', 'APP', 'APP_FRAGMENT']


class Tripwire:
    def __getattr__(self, name):
        def boom(*a, **k):
            core.fail('handler reached')
        return boom


# ------------------------------------------------------------------ L11.1
def sym_blocklist():
    """an arbitrary block list and an arbitrary peer host: two symbolic entries (any non-empty strings), one fixed one;
    -> (set, host, blocked) where blocked decides whether the host is one of the entries"""
    from sx import text, values
    host = text.atom('host', nosep='', nonempty=True)
    e1 = text.atom('entry1', nosep='', nonempty=True)
    e2 = text.atom('entry2', nosep='', nonempty=True)
    if core._rp() is None:
        bl = values.SxSet([e1, e2, '9.9.9.9'])
    else:
        bl = {e1, e2, '9.9.9.9'}
    blocked = bool(Or(host == e1, host == e2, host == '9.9.9.9'))
    return bl, host, blocked


def sym_datagram():
    """-> (bytes, genuine): arbitrary bytes in three forms, or a well-formed client hello as an honest client emits it"""
    form = choose(4, 'form')
    if form == 0:
        n = choose(21, 'short_len')                      # shorter than a header, including empty
        return (rope.symbytes('d', n) if n else b''), False
    if form == 1:
        return rope.symbytes('d', 20) + rope.blob('rest', 0, Packet.RECV_SIZE - 20)[0], False
    if form == 2:
        return rope.blob('opaque', 0, Packet.RECV_SIZE, declare=20)[0], False
    cl = conn.ClientServerConnection(('srv', 9))
    cl.clock = proto.clock_at(100.0)
    cl._sendClientHello()
    return cl._encode_packet(cl._build_packet()), True


def l111():
    ctxt = loop.new_ctxt(Tripwire(), None)
    bl, host, blocked = sym_blocklist()
    ctxt.setBlockList(bl)
    ts = loop.twisted_mod.TwistedServer(ctxt, ('0.0.0.0', 1), install_signals=False)
    ts.transport = loop.Transport()
    raw, genuine = sym_datagram()
    q0 = len(ts.thread.queue)
    try:
        ts.datagramReceived(raw, (host, symint('port', 1, 65535)))
    except Exception as ex:
        core.fail('the datagram entry point raised', error=type(ex).__name__)
    if genuine and not blocked:
        check(len(ts.thread.queue) == q0 + 1 and ts.thread.queue[-1][2] is raw,
              'a well-formed datagram from an address that is not block-listed is handed to the server thread')
    if blocked:
        check(len(ts.thread.queue) == q0, 'a datagram from a block-listed address is discarded before any processing')
        check(ts.thread.cv_queue.notifies == 0, 'the loop is not even woken for a block-listed address')
    check(len(ts.transport.out) == 0, 'the entry point never replies by itself')
    if len(ts.thread.queue) > q0:
        addr, hdr, d = ts.thread.queue[-1]
        check(hdr.isServer is True or bool(hdr.isServer), 'only datagrams addressed to the server are queued')
        check(addr[0] is host, 'the datagram is queued under the address it came from')


R.add('L11.1', l111, [{}], desc='TwistedServer.datagramReceived on arbitrary bytes of any length up to the receive size, from an arbitrary '
                               'host string, with an arbitrary block list (two symbolic entries + one fixed)',
      expect=['a datagram from a block-listed address is discarded before any processing', 'the entry point never replies by itself',
              'only datagrams addressed to the server are queued'],
      bounds='0..20 symbolic bytes | 20 symbolic + opaque rest up to RECV_SIZE | fully opaque of symbolic length; host and two '
             'block-list entries arbitrary non-empty strings')


# ------------------------------------------------------------------ L11.5 the socket receive loop (_UdpServer.run)
class FakeThread:
    """stands in for UdpServerThread behind the reference receive loop: records what is handed to the server thread"""
    instances = []

    def __init__(self, sock, ctxt):
        self.queue = []
        self.started = False
        FakeThread.instances.append(self)

    def start(self):
        self.started = True

    def append(self, addr, hdr, datagram):
        self.queue.append((addr, hdr, datagram))


def l115(n):
    """the reference UDP receive loop: n datagrams (arbitrary bytes) from an arbitrary host, arbitrary block list"""
    sm = loop.server_mod
    ctxt = loop.new_ctxt(Tripwire(), None)
    bl, host, blocked = sym_blocklist()
    ctxt.setBlockList(bl)
    first, genuine = sym_datagram()
    inbox = [(first if k == 0 else rope.blob('later%d' % k, 0, Packet.RECV_SIZE, declare=20)[0],
              (host, symint('port%d' % k, 1, 65535))) for k in range(n)]

    class Sock:
        def __init__(self, *a, **k):
            self.sent = []

        def setsockopt(self, *a):
            pass

        def bind(self, *a):
            pass

        def fileno(self):
            return 3

        def recvfrom(self, size):
            if not inbox:
                ctxt._active = False
                raise ConnectionResetError('harness: end of traffic')
            return inbox.pop(0)

        def sendto(self, data, addr):
            self.sent.append((data, addr))

    class SockMod:
        AF_INET, SOCK_DGRAM, SOL_SOCKET, SO_REUSEADDR = 2, 2, 1, 2
        socket = Sock
    saved = (sm.UdpServerThread, sm.socket)
    FakeThread.instances.clear()
    sm.UdpServerThread, sm.socket = FakeThread, SockMod
    try:
        srv = sm._UdpServer(ctxt, ('0.0.0.0', 1))
        try:
            srv.run()
        except Exception as ex:
            core.fail('the receive loop raised', error=type(ex).__name__)
    finally:
        sm.UdpServerThread, sm.socket = saved
    check(inbox == [], 'the receive loop consumed every datagram (it was not stopped by one of them)')
    th = FakeThread.instances[-1]
    if blocked:
        check(th.queue == [], 'datagrams from a block-listed address never reach the server thread')
    elif genuine:
        check(len(th.queue) >= 1 and th.queue[0][2] is first and th.started,
              'a well-formed datagram from an address that is not block-listed is handed to the (started) server thread')
    check(srv.sock.sent == [], 'the receive loop never replies by itself')
    check(all(a[0] is host for a, h, d in th.queue), 'datagrams are queued under the address they came from')


R.add('L11.5', l115, lambda tier: [dict(n=1), dict(n=2)],
      desc='_UdpServer.run (reference socket loop): arbitrary datagrams from an arbitrary host, arbitrary block list',
      expect=['datagrams from a block-listed address never reach the server thread',
              'the receive loop consumed every datagram (it was not stopped by one of them)'],
      bounds='1 or 2 datagrams per run; host and two block-list entries arbitrary non-empty strings')


# ------------------------------------------------------------------ L11.2 / L11.3 hostile traffic in the real loop
def hostile(kind, k, world, pa):
    """one hostile datagram from address A"""
    if kind == 'forged_header':
        h = PacketHeader()
        h.isServer = False
        h.ctime = symint('h%d_ctime' % k, 0, 2 ** 32 - 1)
        h.pkt_type = getattr(PacketType, TYPES[choose(8, 'h%d_type' % k)])
        h.seq = SeqNum(symint('h%d_seq' % k, 0, 65535))
        h.ack = SeqNum(symint('h%d_ack' % k, 0, 65535))
        h.ack_bits = symint('h%d_ack_bits' % k, 0, 2 ** 32 - 1)
        h.length = symint('h%d_length' % k, 0, 65535)
        h.count = symint('h%d_count' % k, 0, 255)
        assume(h.count <= 1)
        body, nb = rope.blob('h%d_body' % k, 0, 5, declare=5)
        hb = h.to_bytes()
        if bool(h.length <= nb):
            cov = hb + body[:h.length]
            raw = cov + conn.struct.pack('>L', env_m.crc32(cov) & 0xFFFFFFFF) + body[h.length:]
        else:
            raw = hb + body
        return raw
    if kind == 'empty_sealed':
        # a well-formed header of any type that announces an empty message area, followed by 16 arbitrary bytes where the
        # AEAD tag would be (the shape of a keep-alive): forged, so the tag is wrong - emptiness of the payload is no excuse
        h = PacketHeader()
        h.isServer = False
        h.ctime = symint('e%d_ctime' % k, 0, 2 ** 32 - 1)
        h.pkt_type = getattr(PacketType, TYPES[choose(8, 'e%d_type' % k)])
        h.seq = SeqNum(symint('e%d_seq' % k, 0, 65535))
        h.ack = SeqNum(symint('e%d_ack' % k, 0, 65535))
        h.ack_bits = symint('e%d_ack_bits' % k, 0, 2 ** 32 - 1)
        h.length = 0
        h.count = 0
        return h.to_bytes() + rope.blob('e%d_tag' % k, 16, 16)[0]
    if kind == 'tiny_hello':
        # CLIENT_HELLO typed datagram whose message is 3 arbitrary bytes
        h = PacketHeader.create(False, 1000, PacketType.CLIENT_HELLO, SeqNum(symint('t%d_seq' % k, 1, 65535)), SeqNum(0), 0)
        pkt = Packet.create(h, [conn.PendingMessage(SeqNum(1), PacketType.CLIENT_HELLO, rope.symbytes('t%d_m' % k, 3), None, RetryMode.NONE)])
        return pkt.to_bytes(None)
    if kind == 'oversized':
        # a maximal-size datagram of a non-hello type (hello-typed garbage is the two kinds above)
        t = ['UNKNOWN', 'CHALLENGE_RESP', 'KEEP_ALIVE', 'DISCONNECT', 'APP', 'APP_FRAGMENT'][choose(6, 'o%d_type' % k)]
        h = PacketHeader.create(False, 1000, getattr(PacketType, t), SeqNum(symint('o%d_seq' % k, 0, 65535)), SeqNum(0), 0)
        h.length = symint('o%d_length' % k, 0, 65535)
        h.count = symint('o%d_count' % k, 0, 255)
        return h.to_bytes() + rope.blob('o%d' % k, 1600, 2048)[0]
    if kind == 'truncated_genuine':
        if pa.last_datagram is None:
            return b'FSOS'
        cut = symint('cut%d' % k, 0, 60)
        return pa.last_datagram[:cut]
    return b''


def l112(a_state, quick):
    pa = pb = None
    b_snap = {}

    def script(world, tick):
        nonlocal pa, pb
        if tick == 1:
            pa = loop.Peer(world, A)
            pb = loop.Peer(world, B)
            pb.c._sendClientHello()
            world.inject(pb.emit(), B)
            if a_state in ('temp', 'connected'):
                pa.c._sendClientHello()
                world.inject(pa.emit(), A)
            return
        loop_reply(world, pb)
        if tick == 6:
            p, L = rope.blob('b_app', 1, 60)
            pb.c.send(p, RetryMode.NONE, None)
            pb.sent_payloads.append(p)
        if a_state == 'connected' and tick in (2, 3, 4):
            loop_reply(world, pa)
        if tick == 5:
            kinds = ['forged_header', 'tiny_hello', 'oversized', 'truncated_genuine', 'empty_sealed']
            kind = kinds[choose(len(kinds), 'hostile_kind')]
            sb = world.ctxt.connections.get(B)
            if sb is not None:
                b_snap['before'] = proto.snapshot(sb)
                b_snap['obj'] = sb
            world.inject(hostile(kind, tick, world, pa), A)
            if not quick:
                # a second hostile datagram in the same tick (cheap kinds: the expensive ones are explored as the first)
                world.inject(hostile(['oversized', 'truncated_genuine'][choose(2, 'hostile_kind2')], tick + 100, world, pa), A)
        if tick == 6 and a_state == 'connected':
            # the address under attack belongs to an honest established client (the attacker spoofed it): it keeps talking
            pa.absorb()
            p, L = rope.blob('a_app', 1, 60)
            pa.c.send(p, RetryMode.NONE, None)
            pa.sent_payloads.append(p)
            raw = pa.emit()
            if raw is not None:
                world.inject(raw, A)
        if tick == 6 and 'obj' in b_snap:
            # one loop iteration later: the hostile datagram has been processed, B has not sent anything in between
            b_snap['after'] = proto.snapshot(b_snap['obj'])

    world = loop.World(9, script)
    world.run()
    check(world.escaped is None, 'hostile datagrams never make an exception leave the server loop', escaped=repr(world.escaped))
    ev = world.handler.events
    check(loop.lifecycle_ok(ev) == [], 'handler lifecycle intact under hostile traffic')
    msgs_b = [e for e in ev if e[0] == 'message' and e[1].addr == B]
    check(len(msgs_b) == 1, 'the established client is still served: its message is delivered')
    if a_state == 'connected':
        msgs_a = [e for e in ev if e[0] == 'message' and e[1].addr == A]
        check(len(msgs_a) == 1, 'a client whose address was used for hostile datagrams is still served (spoofed source cannot cut it off)')
        check(len([e for e in ev if e[0] == 'disconnect' and e[1].addr == A]) <= 1, 'and is not disconnected before shutdown')
    connects_b = [e for e in ev if e[0] == 'connect' and e[1].addr == B]
    check(len(connects_b) == 1, 'the established client connected exactly once')
    if 'before' in b_snap and 'after' in b_snap:
        skip = ('last_recv_time', 'pkt_cur', 'pkt_bits', 'outgoing', 'pending_acks', 'pending_callbacks', 'seq_sending', 'latency', 'msg_cur', 'msg_bits', 'incoming')
        same, names = proto.unchanged(b_snap['before'], b_snap['after'], skip=skip)
        check(same, 'key, status, token and fragments of the other client are untouched by hostile datagrams from elsewhere')
    if a_state == 'new':
        # whatever the bytes were (they may even form a valid hello): never more out than in
        out_a = sum(rope.sx_len(d) for d, a in world.transport.out if a == A)
        check(out_a <= world.bytes_from.get(A, 0), 'an address that has not completed the handshake never gets more bytes than it sent')


def loop_reply(world, peer):
    peer.absorb()
    raw = peer.emit()
    if raw is not None:
        world.inject(raw, peer.addr)


R.add('L11.2', l112, lambda tier: [dict(a_state=s, quick=(tier == 'quick' or s == 'new')) for s in ('new', 'temp', 'connected')],
      desc='real server loop: hostile datagrams from A (unknown / handshaking / connected) while B is an established honest client',
      expect=['hostile datagrams never make an exception leave the server loop',
              'the established client is still served: its message is delivered',
              'key, status, token and fragments of the other client are untouched by hostile datagrams from elsewhere'],
      bounds='one (thorough two) hostile datagram(s): forged header of any type with valid CRC and <= 5 arbitrary body bytes | CLIENT_HELLO '
             'with a 3-byte arbitrary message | oversized | truncated copy of a genuine datagram | header announcing an empty message area + 16 arbitrary tag bytes', path_cap=400000)


# ------------------------------------------------------------------ L11.4 anti-amplification
def l114():
    Packet.setMTU(symint('mtu', 512, 1500))
    clock = proto.clock_at(1000.0)
    ctxt = proto.mk_ctxt()
    ctxt.server_root_key = proto.new_key('root')
    sv = conn.ServerClientConnection(ctxt, A)
    sv.clock = clock
    ctxt.temp_connections[A] = sv
    attacker = proto.new_key('attacker_eph')
    # a hello in the honest format, but with as little or as much padding as the attacker likes
    st = ser.BytesIO()
    st.write(conn.struct.pack('>H', conn.HandshakeClientHelloMessage.type_id))
    ser.serialize_value(st, attacker.getPublicKey().getBytes())
    ser.serialize_value(st, 1)
    pad, q = rope.blob('padding', 0, 1600)
    msg = st.getvalue() + pad
    h = PacketHeader.create(False, 1000, PacketType.CLIENT_HELLO, SeqNum(1), SeqNum(0), 0)
    pkt = Packet.create(h, [conn.PendingMessage(SeqNum(1), PacketType.CLIENT_HELLO, msg, None, RetryMode.NONE)])
    hello = pkt.to_bytes(None)
    n_in = rope.sx_len(hello)
    try:
        sv._recv_datagram(PacketHeader.from_bytes(True, hello), hello)
    except Exception:
        pass
    replies = [m for m in sv.outgoing_messages if m.type == PacketType.SERVER_HELLO]
    check(len(sv.outgoing_messages) == len(replies) and len(replies) <= 1, 'at most one reply, a server hello, is queued')
    if replies:
        check(n_in >= Packet.MAX_PAYLOAD_SIZE + 4, 'a reply is queued only for a hello of the full padded size')
        clock.advance(0.05)
        out = sv.update()
        check(out is not None, 'the reply leaves')
        raw = out[0].to_bytes(out[1])
        check(rope.sx_len(raw) < n_in, 'the reply is smaller than the hello that triggered it')
    # nothing else is ever sent to an address that has not completed the handshake
    total = 0
    for i in range(4):
        clock.advance([0.05, 0.5, 1.0, 3.0][i])
        out = sv.update()
        check(out is None, 'a connection that has not completed the handshake emits nothing further (no keep-alives, no retries)')


R.add('L11.4', l114, [{}], desc='symbolic MTU and padding: reply only for a full-size hello, smaller than it, and nothing else',
      expect=['a reply is queued only for a hello of the full padded size', 'the reply is smaller than the hello that triggered it',
              'a connection that has not completed the handshake emits nothing further (no keep-alives, no retries)'],
      bounds='MTU 512..1500, padding 0..1600 bytes')

import sys as _sys  # noqa: E402
LOOPPATCH = [('mpgameserver.server', 'Condition', stubs_m.Condition), ('mpgameserver.twisted', 'reactor', stubs_m.reactor)]
for _l in R.lemmas.values():
    if _l.replay is None:
        _l.replay = generic_replay(_l.func, [proto, loop, _sys.modules[__name__]], patches=LOOPPATCH)

for _lid in ['L11.1', 'L11.2', 'L11.4', 'L11.5']:
    if _lid in R.lemmas:
        R.lemmas[_lid].api = True

get_harness = R.get_harness
