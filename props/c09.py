"""C09 - wire codec round-trips; datagrams respect the MTU; packing never fails.

L9.1 header codec, L9.2 packet codec (CRC and AEAD form), L9.3 every datagram <= MTU-28 for a
symbolic MTU and arbitrary queue, L9.4 messages that fit together leave together,
L9.5 packing never raises / loses (incl. hundreds of tiny messages).
"""
import z3

import sx
from sx import core, rope
from sx.core import symint, symbool, check, assume, SxInt, SxBool, E, And, Or, Not, Iff, ite
from .common import Registry, real

conn = sx.load('connection')
Packet, PacketHeader, PacketType, SeqNum = conn.Packet, conn.PacketHeader, conn.PacketType, conn.SeqNum
PendingMessage, RetryMode = conn.PendingMessage, conn.RetryMode

R = Registry('C09')
KEY = b'K' * 16


def sym_header(prefix='h'):
    h = PacketHeader()
    h.isServer = symbool(prefix + '_isServer')
    h.ctime = symint(prefix + '_ctime', 0, 2 ** 32 - 1)
    h.pkt_type = PacketType(symint(prefix + '_type', 0, 7))
    h.seq = SeqNum(symint(prefix + '_seq', 0, 65535))
    h.ack = SeqNum(symint(prefix + '_ack', 0, 65535))
    h.ack_bits = symint(prefix + '_ack_bits', 0, 2 ** 32 - 1)
    h.length = symint(prefix + '_length', 0, 65535)
    h.count = symint(prefix + '_count', 0, 255)
    return h


def hdr_equal(a, b):
    return And(Iff(a.isServer, b.isServer), a.ctime == b.ctime, a.pkt_type == b.pkt_type, a.seq == b.seq,
               a.ack == b.ack, a.ack_bits == b.ack_bits, a.length == b.length, a.count == b.count)


# ------------------------------------------------------------------ L9.1
def l91():
    h = sym_header()
    raw = h.to_bytes()
    check(rope.sx_len(raw) == 20, 'header is 20 bytes')
    want_server = symbool('reader_is_server')
    # a header built by the client (isServer False) carries TO_SERVER and is readable by the server
    try:
        h2 = PacketHeader.from_bytes(want_server, raw)
        ok = True
    except conn.PacketError:
        ok = False
    check(Iff(ok, Not(Iff(h.isServer, want_server))), 'direction check: accepted iff addressed to the reader')
    if ok:
        # from_bytes' isServer field means "addressed to the server"
        check(And(h2.ctime == h.ctime, h2.pkt_type == h.pkt_type, h2.seq == h.seq, h2.ack == h.ack,
                  h2.ack_bits == h.ack_bits, h2.length == h.length, h2.count == h.count),
              'header fields round-trip')
        check(isinstance(h2.seq, SeqNum) and isinstance(h2.ack, SeqNum), 'seq/ack are SeqNum')


def l91_range():
    """a field outside its wire range is refused (struct.error), never wrapped silently"""
    h = PacketHeader()
    h.isServer = False
    h.pkt_type = PacketType.APP
    which = core.choose(5, 'field')
    vals = dict(ctime=1, seq=1, ack=1, length=1, count=1, ack_bits=1)
    name, hi = [('ctime', 2 ** 32 - 1), ('length', 65535), ('count', 255), ('ack_bits', 2 ** 32 - 1), ('seq', 65535)][which]
    v = symint('v', -2 ** 33, 2 ** 33)
    vals[name] = v
    h.ctime, h.length, h.count, h.ack_bits = vals['ctime'], vals['length'], vals['count'], vals['ack_bits']
    h.seq, h.ack = vals['seq'], vals['ack']
    try:
        h.to_bytes()
        ok = True
    except conn.struct.error:
        ok = False
    check(Iff(ok, And(v >= 0, v <= hi)), 'out-of-range header field raises struct.error')


def replay_l91(cfg, m):
    c = real('mpgameserver.connection')
    h = c.PacketHeader()
    h.isServer = m['h_isServer']
    h.ctime, h.seq, h.ack = m['h_ctime'], c.SeqNum(m['h_seq']), c.SeqNum(m['h_ack'])
    h.pkt_type = c.PacketType(m['h_type'])
    h.ack_bits, h.length, h.count = m['h_ack_bits'], m['h_length'], m['h_count']
    raw = h.to_bytes()
    bad = len(raw) != 20
    try:
        h2 = c.PacketHeader.from_bytes(m['reader_is_server'], raw)
        ok = True
    except c.PacketError:
        ok = False
    bad = bad or ok != (h.isServer != m['reader_is_server'])
    if ok:
        bad = bad or not (h2.ctime == h.ctime and h2.pkt_type == h.pkt_type and h2.seq == h.seq and h2.ack == h.ack
                          and h2.ack_bits == h.ack_bits and h2.length == h.length and h2.count == h.count)
    return bad, 'ok=%s' % ok


R.add('L9.1', l91, [{}], replay=replay_l91, desc='PacketHeader to_bytes/from_bytes over all field values',
      expect=['header fields round-trip', 'direction check: accepted iff addressed to the reader'])
R.add('L9.1r', l91_range, [{}], desc='out-of-range header fields are refused',
      expect=['out-of-range header field raises struct.error'])


# ------------------------------------------------------------------ L9.2 packet round trip
def sym_msgs(n, maxlen, prefix='m', types=True):
    msgs = []
    for i in range(n):
        payload, L = rope.blob('%s%d' % (prefix, i), 0, maxlen)
        t = PacketType(symint('%s%d_type' % (prefix, i), 0, 7)) if types else PacketType.APP
        msgs.append(PendingMessage(SeqNum(symint('%s%d_seq' % (prefix, i), 0, 65535)), t, payload, None, RetryMode.NONE))
    return msgs


def l92(n, keyed, tiny=False):
    h = sym_header()
    if tiny:
        # the maximum message count: n empty / one-byte payloads, symbolic seqs
        msgs = [PendingMessage(SeqNum(symint('m%d_seq' % i, 0, 65535)), PacketType.APP, b'' if i % 2 else b'x', None, RetryMode.NONE) for i in range(n)]
    else:
        msgs = sym_msgs(n, 1500)
    # framing bytes, written independently of Packet.overhead: none for an empty packet, a 2-byte seq for a single
    # message, 5 bytes (length, seq, type) per message otherwise
    ref_overhead = 0 if n == 0 else (2 if n == 1 else 5 * n)
    check(Packet.overhead(n) == ref_overhead, 'Packet.overhead(n) is the framing the codec really writes')
    total = sum(rope.sx_len(m.payload) for m in msgs) + ref_overhead
    assume(total <= 65535)
    if n == 1:
        # a single message travels under the header's type
        assume(msgs[0].type == h.pkt_type)
    key = KEY if keyed else None
    pkt = Packet.create(h, msgs)
    check(h.count == n, 'count field == number of messages')
    check(h.length == rope.sx_len(pkt.msg), 'length field == payload length')
    check(h.length == total, 'payload length == sum of messages + overhead(n)')
    raw = pkt.to_bytes(key)
    check(rope.sx_len(raw) == pkt.total_size(key), 'total_size == len(to_bytes)')
    sealed = bool(And(keyed, h.pkt_type != PacketType.SERVER_HELLO))
    check(rope.sx_len(raw) == 20 + total + (16 if sealed else 4), 'datagram length')
    h2 = PacketHeader.from_bytes(Not(h.isServer), raw)
    check(And(h2.length == h.length, h2.count == h.count, h2.pkt_type == h.pkt_type), 'header survives')
    rkey = key
    if keyed and bool(h.pkt_type == PacketType.SERVER_HELLO):
        # the signed server hello travels in CRC form; its receiver (the connecting client) holds no key yet
        rkey = None
    pkt2 = Packet.from_bytes(h2, rkey, raw)
    check(len(pkt2.msgs) == n, 'same number of messages')
    for a, b in zip(msgs, pkt2.msgs):
        check(b.seq == a.seq, 'message seq round-trips')
        check(b.type == a.type, 'message type round-trips')
        check(b.payload == a.payload, 'message payload round-trips')


def replay_l92(cfg, m):
    import os
    c = real('mpgameserver.connection')
    n, keyed = cfg['n'], cfg['keyed']
    h = c.PacketHeader()
    h.isServer = m['h_isServer']
    h.ctime, h.seq, h.ack = m['h_ctime'], c.SeqNum(m['h_seq']), c.SeqNum(m['h_ack'])
    h.pkt_type = c.PacketType(m['h_type'])
    h.ack_bits = m['h_ack_bits']
    msgs = []
    for i in range(n):
        if cfg.get('tiny'):
            msgs.append(c.PendingMessage(c.SeqNum(m.get('m%d_seq' % i, 0)), c.PacketType.APP, b'' if i % 2 else b'x', None, 0))
            continue
        t = c.PacketType(m['m%d_type' % i])
        msgs.append(c.PendingMessage(c.SeqNum(m['m%d_seq' % i]), t, os.urandom(m['m%d_len' % i]), None, 0))
    key = KEY if keyed else None
    try:
        pkt = c.Packet.create(h, msgs)
        raw = pkt.to_bytes(key)
        ref_overhead = 0 if n == 0 else (2 if n == 1 else 5 * n)
        bad = len(raw) != pkt.total_size(key) or h.count != n or h.length != len(pkt.msg)
        bad = bad or c.Packet.overhead(n) != ref_overhead or h.length != sum(len(x.payload) for x in msgs) + ref_overhead
        h2 = c.PacketHeader.from_bytes(not h.isServer, raw)
        pkt2 = c.Packet.from_bytes(h2, None if (keyed and h.pkt_type == c.PacketType.SERVER_HELLO) else key, raw)
        bad = bad or len(pkt2.msgs) != n
        for a, b in zip(msgs, pkt2.msgs):
            bad = bad or not (a.seq == b.seq and a.type == b.type and a.payload == b.payload)
    except Exception as e:
        return True, 'raised %r' % (e,)
    return bad, 'n=%d' % n


def l92_instances(tier):
    ns = [0, 1, 2, 3] if tier == 'quick' else [0, 1, 2, 3, 4, 5, 6]
    out = [dict(n=n, keyed=k) for n in ns for k in (False, True)]
    out += [dict(n=255, keyed=k, tiny=True) for k in ((True,) if tier == 'quick' else (False, True))]
    return out


R.add('L9.2', l92, l92_instances, replay=replay_l92,
      desc='Packet.create/to_bytes/from_bytes round trip, CRC and AEAD form, symbolic seqs/types/lengths/contents',
      expect=['message payload round-trips', 'total_size == len(to_bytes)'],
      bounds='n messages in {0..3} (thorough 0..6) with payload lengths 0..1500 each, total <= 65535; plus n = 255 tiny messages')


# ------------------------------------------------------------------ L9.3 / L9.4 / L9.5 packing
def mk_sender(mtu_sym=True):
    """sender under an arbitrary MTU.  The MTU is process-wide configuration (Packet.setMTU) that may change while a
    connection exists: by symbolic choice the connection is constructed *before* the MTU under which it packs is set
    (it was born under another arbitrary MTU), so limits frozen into the object at construction are visible."""
    early = None
    if mtu_sym and bool(symbool('conn_before_setmtu')):
        Packet.setMTU(symint('mtu_at_birth', 512, 1500))
        early = conn.ConnectionBase(symbool('isServer'), ('peer', 1))
    if mtu_sym:
        mtu = symint('mtu', 512, 1500)
        Packet.setMTU(mtu)
    c = early if early is not None else conn.ConnectionBase(symbool('isServer'), ('peer', 1))
    c.status = conn.ConnectionStatus.CONNECTED
    c.session_key_bytes = KEY
    return c


def queue_msgs(c, q, maxlen=None, prefix='q'):
    """q application messages with arbitrary lengths 0..MAX_PAYLOAD_SIZE queued through the real send()"""
    lens = []
    blobs = []
    for i in range(q):
        payload, L = rope.blob('%s%d' % (prefix, i), 0, None)
        assume(L <= (Packet.MAX_PAYLOAD_SIZE if maxlen is None else maxlen))
        retry = [RetryMode.NONE, RetryMode.BEST_EFFORT, RetryMode.RETRY_ON_TIMEOUT][core.choose(3, 'retry%d' % i)]
        c.send(payload, retry, None)
        lens.append(L)
        blobs.append(payload)
    return lens, blobs


def l93(q, r):
    c = mk_sender()
    # r messages waiting in the resend table (BEST_EFFORT / retry traffic), due for resend
    for j in range(r):
        payload, L = rope.blob('r%d' % j, 0, None)
        assume(L <= Packet.MAX_PAYLOAD_SIZE)
        m = PendingMessage(SeqNum(100 + j), PacketType.APP, payload, None, RetryMode.BEST_EFFORT)
        m.assembled_time = 0
        c.pending_retry_msg[m.seq] = m
    lens, blobs = queue_msgs(c, q)
    before = list(c.outgoing_messages)
    pkt = c._build_packet_impl(100.0, True, 0.1)
    check(pkt is not None, 'a packet is built (keep-alive or data)')
    for key in (KEY, None):
        raw = pkt.to_bytes(key)
        check(rope.sx_len(raw) <= Packet.MTU - 28, 'datagram <= MTU-28')
        check(rope.sx_len(raw) == pkt.total_size(key), 'total_size matches')
    check(pkt.hdr.count == len(pkt.msgs), 'count matches')
    # conservation: every queued message is either in the packet or still queued, in order
    rest = list(c.outgoing_messages)
    sent = [m for m in pkt.msgs if any(m is b for b in before)]
    check(len(sent) + len(rest) == len(before), 'no queued message lost or duplicated')
    merged = [m for m in before if any(m is s for s in sent) or any(m is x for x in rest)]
    check(len(merged) == len(before), 'every queued message accounted for')


def replay_pack(cfg, m, check_fn):
    import os
    c = real('mpgameserver.connection')
    mtu = m.get('mtu', 1500)
    early = None
    if m.get('conn_before_setmtu'):
        c.Packet.setMTU(m.get('mtu_at_birth', 1500))
        early = c.ConnectionBase(bool(m.get('isServer', False)), ('peer', 1))
    c.Packet.setMTU(mtu)
    try:
        cn = early if early is not None else c.ConnectionBase(bool(m.get('isServer', False)), ('peer', 1))
        cn.status = c.ConnectionStatus.CONNECTED
        cn.session_key_bytes = KEY
        for j in range(cfg.get('r', 0)):
            pm = c.PendingMessage(c.SeqNum(100 + j), c.PacketType.APP, os.urandom(m['r%d_len' % j]), None, c.RetryMode.BEST_EFFORT)
            cn.pending_retry_msg[pm.seq] = pm
        modes = [c.RetryMode.NONE, c.RetryMode.BEST_EFFORT, c.RetryMode.RETRY_ON_TIMEOUT]
        i = 0
        choices = sorted((k for k in m if k.startswith('retry')), key=lambda s: int(s.split('#')[1]))
        while 'q%d_len' % i in m:
            mode = modes[m[choices[i]]] if i < len(choices) else modes[0]
            cn.send(os.urandom(m['q%d_len' % i]), mode, None)
            i += 1
        return check_fn(c, cn)
    finally:
        c.Packet.setMTU(1500)


def replay_l93(cfg, m):
    def fn(c, cn):
        before = list(cn.outgoing_messages)
        try:
            pkt = cn._build_packet_impl(100.0, True, 0.1)
            raw = pkt.to_bytes(KEY)
            raw2 = pkt.to_bytes(None)
        except Exception as e:
            return True, 'raised %r' % (e,)
        bad = len(raw) > c.Packet.MTU - 28 or len(raw2) > c.Packet.MTU - 28
        sent = [x for x in pkt.msgs if x in before]
        bad = bad or len(sent) + len(cn.outgoing_messages) != len(before)
        return bad, 'len=%d mtu=%d' % (len(raw), c.Packet.MTU)
    return replay_pack(cfg, m, fn)


def l93_instances(tier):
    if tier == 'quick':
        return [dict(q=q, r=r) for q in (0, 1, 2, 3) for r in (0, 1)] + [dict(q=2, r=2)]
    return [dict(q=q, r=r) for q in (0, 1, 2, 3, 4) for r in (0, 1, 2)]


R.add('L9.3', l93, l93_instances, replay=replay_l93,
      desc='symbolic MTU 512..1500, arbitrary queue: every datagram <= MTU-28, nothing lost',
      expect=['datagram <= MTU-28', 'no queued message lost or duplicated'],
      bounds='queue <= 3 (thorough 4) new + <= 2 resend messages, lengths 0..MAX_PAYLOAD_SIZE, MTU 512..1500')


def l94(q):
    """if the first q queued messages fit one datagram (<= MTU-28 once encoded) they leave together"""
    c = mk_sender()
    lens, blobs = queue_msgs(c, q)
    total = sum(lens) + Packet.overhead(q)
    assume(20 + total + 16 <= Packet.MTU - 28)
    pkt = c._build_packet_impl(100.0, False, 0.1)
    check(pkt is not None, 'packet built')
    check(len(pkt.msgs) == q, 'messages that fit together travel in one datagram')
    check(len(c.outgoing_messages) == 0, 'queue drained')


def replay_l94(cfg, m):
    def fn(c, cn):
        n = len(cn.outgoing_messages)
        pkt = cn._build_packet_impl(100.0, False, 0.1)
        got = len(pkt.msgs) if pkt else 0
        return got != n, 'queued=%d packed=%d lens=%s mtu=%d' % (n, got, [m[k] for k in sorted(m) if k.endswith('_len')], c.Packet.MTU)
    return replay_pack(cfg, m, fn)


R.add('L9.4', l94, lambda tier: [dict(q=q) for q in ((1, 2, 3) if tier == 'quick' else (1, 2, 3, 4, 5))],
      replay=replay_l94, desc='messages that fit one datagram leave in one datagram',
      expect=['messages that fit together travel in one datagram'])


def l95(n, retry=False):
    """n tiny (possibly empty) messages per tick: packing neither raises nor loses messages.  With retry=True the messages
    are BEST_EFFORT, no ack ever arrives, and after the resend delay all n are due for retransmission in the same tick:
    the resend path obeys the same limits (count field, size) and re-sends each message once."""
    c = mk_sender(mtu_sym=False)
    L = symint('tiny_len', 0, 2)
    for i in range(n):
        c.send(rope.mk([('view', rope.Blob('t%d' % i, rope._zi(L)), z3.IntVal(0), rope._zi(L))]),
               RetryMode.BEST_EFFORT if retry else RetryMode.NONE, None)
    queued = len(c.outgoing_messages)
    check(queued == n, 'all sends queued')
    sent = 0
    for tick in range(n + 1):
        before = len(c.outgoing_messages)
        if before == 0:
            break
        try:
            pkt = c._build_packet_impl(100.0 + tick * 0.001, False, 0.1)
            raw = pkt.to_bytes(KEY) if pkt is not None else b''
        except Exception as ex:
            core.fail('packet construction raised', error=repr(ex))
        check(pkt is not None, 'progress: a packet is built while messages are queued')
        check(pkt.hdr.count == len(pkt.msgs), 'count field holds the number of messages')
        check(len(pkt.msgs) + len(c.outgoing_messages) == before, 'no message lost')
        sent += len(pkt.msgs)
    check(sent == n, 'every queued message eventually packed')
    if retry:
        check(len(c.pending_retry_msg) == n, 'every unacknowledged BEST_EFFORT message waits for its retransmission')
        resent = []
        for tick in range(n + 1):
            try:
                pkt = c._build_packet_impl(200.0 + tick * 0.001, False, 0.1)
                raw = pkt.to_bytes(KEY) if pkt is not None else b''
            except Exception as ex:
                core.fail('packet construction raised', error=repr(ex))
            if pkt is None:
                break
            check(pkt.hdr.count == len(pkt.msgs), 'count field holds the number of messages')
            resent.extend(m.seq for m in pkt.msgs)
        check(len(resent) == n and len(set(int(x) for x in resent)) == n, 'every message due for retransmission is re-sent once')


def replay_l95(cfg, m):
    import os
    c = real('mpgameserver.connection')
    cn = c.ConnectionBase(False, ('peer', 1))
    cn.status = c.ConnectionStatus.CONNECTED
    cn.session_key_bytes = KEY
    n = cfg['n']
    retry = cfg.get('retry', False)
    for i in range(n):
        cn.send(os.urandom(m.get('tiny_len', 0)), retry=(c.RetryMode.BEST_EFFORT if retry else c.RetryMode.NONE))
    sent = 0
    try:
        for tick in range(n + 1):
            if not cn.outgoing_messages:
                break
            before = len(cn.outgoing_messages)
            pkt = cn._build_packet_impl(100.0 + tick * 0.001, False, 0.1)
            pkt.to_bytes(KEY)
            if len(pkt.msgs) + len(cn.outgoing_messages) != before:
                return True, 'lost'
            sent += len(pkt.msgs)
    except Exception as e:
        return True, 'raised %r after %d sent, %d left queued' % (e, sent, len(cn.outgoing_messages))
    if sent != n or not retry:
        return sent != n, 'sent=%d' % sent
    resent = []
    try:
        for tick in range(n + 1):
            pkt = cn._build_packet_impl(200.0 + tick * 0.001, False, 0.1)
            if pkt is None:
                break
            pkt.to_bytes(KEY)
            resent.extend(int(x.seq) for x in pkt.msgs)
    except Exception as e:
        return True, 'retransmission raised %r after %d of %d re-sent' % (e, len(resent), n)
    return len(resent) != n or len(set(resent)) != n, 're-sent %d (distinct %d) of %d' % (len(resent), len(set(resent)), n)


R.add('L9.5', l95, lambda tier: [dict(n=n) for n in ((2, 255, 256, 300) if tier == 'quick' else (1, 2, 3, 254, 255, 256, 257, 300, 600))]
      + [dict(n=n, retry=True) for n in ((2, 256, 300) if tier == 'quick' else (1, 2, 255, 256, 257, 300, 600))],
      replay=replay_l95, desc='hundreds of tiny messages per tick, first transmission and retransmission (BEST_EFFORT, no ack, all due in one tick): '
                              'construction never raises, nothing lost, every due message re-sent once',
      expect=['every queued message eventually packed', 'every message due for retransmission is re-sent once'],
      bounds='n in {2,255,256,300} (thorough up to 600), lengths 0..2; retransmission round with n in {2,256,300} (thorough up to 600)')

# ------------------------------------------------------------------ L9.6 packing never wedges on what send() queues
# "packet construction never fails or loses messages" includes the messages the library itself produces: whatever
# send() queues for a payload of any length (single message or fragments) must be admitted by the packer - a message
# larger than an empty packet would sit in the queue for ever.  Same harness as C05 L5.2 (send, then one build per tick).
from . import c05 as _c05  # noqa: E402

R.add('L9.6', _c05.l52, lambda tier: [dict(maxfrag=(3 if tier == 'quick' else 8))], replay=_c05.replay_l52,
      desc='send() of any length, then one packet per tick: every queued message is admitted by the packer (the queue drains), '
           'for every MTU',
      expect=['no payload size is left unsent: the queue drains'],
      bounds='L <= MAX_PAYLOAD_SIZE + 3 (thorough 8) * MAX_FRAGMENT_SIZE, MTU 512..1500')

for _lid in ['L9.1', 'L9.2', 'L9.6']:
    if _lid in R.lemmas:
        R.lemmas[_lid].api = True

get_harness = R.get_harness
