"""C06 - fragmentation and reassembly preserve bytes; nothing is fabricated.

L6.1 split (real send -> FragmentSender.build), L6.2 one reassembly step from an arbitrary
receiver context (order/duplicate independence, completion, exact payload), L6.3 end-to-end:
fragments produced by the real sender fed to the real receiver under an arbitrary
order-with-duplicates schedule, L6.5 refusal above the fragmentation limit.
"""
import z3

import sx
from sx import core, rope
from sx.core import symint, symbool, symreal, check, assume, SxInt, SxBool, E, And, Or, Not, Iff, ite, choose
from sx.models import env_m
from . import proto
from .common import Registry, real

conn = sx.load('connection')
Packet, PacketType, SeqNum, RetryMode = conn.Packet, conn.PacketType, conn.SeqNum, conn.RetryMode

R = Registry('C06')
KEY = b'K' * 16


def mk_conn(server=False, mtu_sym=True):
    if mtu_sym:
        proto.set_mtu()
    c = conn.ConnectionBase(server, ('peer', 1))
    c.status = conn.ConnectionStatus.CONNECTED
    c.session_key_bytes = KEY
    return c


def capacity():
    """payload bytes + per-message overhead that one encrypted datagram can carry"""
    return Packet.MTU - 28 - 20 - 16


# ------------------------------------------------------------------ L6.1
def l61(maxfrag):
    c = mk_conn()
    c.seq_fragment = SeqNum(symint('frag_seq0', 0, 65535))
    payload, L = rope.blob('p', 0, None)
    assume(L <= Packet.MAX_PAYLOAD_SIZE + maxfrag * Packet.MAX_FRAGMENT_SIZE)
    retry = [RetryMode.NONE, RetryMode.BEST_EFFORT, RetryMode.RETRY_ON_TIMEOUT][choose(3, 'retry')]
    c.send(payload, retry, None)
    q = c.outgoing_messages
    if bool(L <= Packet.MAX_PAYLOAD_SIZE):
        check(len(q) == 1, 'payload up to the single-datagram limit is one message')
        check(q[0].type == PacketType.APP, 'unfragmented payload is an APP message')
        check(q[0].payload == payload, 'unfragmented payload is sent unchanged')
        check(rope.sx_len(q[0].payload) + Packet.overhead(1) <= capacity(), 'single message fits one datagram')
        return
    n = len(q)
    check(n >= 2, 'a payload above the single-datagram limit is split')
    check(n <= maxfrag + 2, 'unwinding bound respected')
    fid = c.seq_fragment
    bodies = []
    for i, m in enumerate(q):
        check(m.type == PacketType.APP_FRAGMENT, 'fragments are APP_FRAGMENT messages')
        f_id, idx, cnt, body = conn.FragmentSender.parsePayload(m.payload)
        check(And(f_id == fid, idx == i + 1, cnt == n), 'fragment header is (id, index, count)')
        check(rope.sx_len(body) >= 1, 'no empty fragment')
        check(rope.sx_len(m.payload) + Packet.overhead(1) <= capacity(), 'every fragment fits one datagram')
        bodies.append(body)
    whole = conn.__dict__['__sx_join__'](b'', bodies)
    check(whole == payload, 'concatenated fragment bodies == payload')
    check(fid != 0, 'fragment id is never 0')


def replay_l61(cfg, m):
    import os
    c = real('mpgameserver.connection')
    proto.replay_set_mtu(c, m)
    try:
        cn = c.ConnectionBase(False, ('p', 1))
        cn.status = c.ConnectionStatus.CONNECTED
        cn.seq_fragment = c.SeqNum(m.get('frag_seq0', 0))
        data = os.urandom(m['p_len'])
        mode = [c.RetryMode.NONE, c.RetryMode.BEST_EFFORT, c.RetryMode.RETRY_ON_TIMEOUT][[v for k, v in m.items() if k.startswith('retry')][0]]
        cn.send(data, mode, None)
        q = cn.outgoing_messages
        cap = c.Packet.MTU - 28 - 36
        if len(data) <= c.Packet.MAX_PAYLOAD_SIZE:
            bad = len(q) != 1 or q[0].payload != data or q[0].type != c.PacketType.APP
            return bad, 'single'
        bad = len(q) < 2
        bodies = []
        for i, pm in enumerate(q):
            fid, idx, cnt, body = c.FragmentSender.parsePayload(pm.payload)
            bad = bad or idx != i + 1 or cnt != len(q) or fid != cn.seq_fragment or len(body) < 1
            bad = bad or len(pm.payload) + 2 > cap or pm.type != c.PacketType.APP_FRAGMENT
            bodies.append(body)
        bad = bad or b''.join(bodies) != data
        return bad, 'L=%d mtu=%d frags=%d sizes=%s' % (len(data), c.Packet.MTU, len(q), [len(b) for b in bodies][-2:])
    finally:
        c.Packet.setMTU(1500)


R.add('L6.1', l61, lambda tier: [dict(maxfrag=3 if tier == 'quick' else 8)], replay=replay_l61,
      desc='send(): split of an opaque payload of symbolic length for a symbolic MTU',
      expect=['concatenated fragment bodies == payload', 'unfragmented payload is sent unchanged',
              'every fragment fits one datagram'],
      bounds='L <= MAX_PAYLOAD_SIZE + 3 (thorough 8) * MAX_FRAGMENT_SIZE, MTU 512..1500')


def l65():
    """above the fragmentation limit: ValueError, nothing queued, nothing truncated"""
    c = mk_conn(mtu_sym=False)
    limit = Packet.MAX_FRAGMENT_SIZE * Packet.MAX_FRAGMENTS
    payload, L = rope.blob('p', limit + 1, limit + 10 ** 9)
    try:
        c.send(payload, RetryMode.NONE, None)
        raised = False
    except ValueError:
        raised = True
    check(raised, 'payload above the fragmentation limit is refused with ValueError')
    check(len(c.outgoing_messages) == 0, 'nothing queued for a refused payload')
    check(len(c.pending_fragments) == 0, 'no fragment context left for a refused payload')


def replay_l65(cfg, m):
    c = real('mpgameserver.connection')
    cn = c.ConnectionBase(False, ('p', 1))
    cn.status = c.ConnectionStatus.CONNECTED
    limit = c.Packet.MAX_FRAGMENT_SIZE * c.Packet.MAX_FRAGMENTS
    try:
        cn.send(bytes(limit + 1))
        raised = False
    except ValueError:
        raised = True
    return (not raised) or len(cn.outgoing_messages) != 0 or len(cn.pending_fragments) != 0, 'raised=%s queued=%d' % (raised, len(cn.outgoing_messages))


R.add('L6.5', l65, [{}], replay=replay_l65, desc='payload above MAX_FRAGMENT_SIZE*MAX_FRAGMENTS refused',
      expect=['payload above the fragmentation limit is refused with ValueError'])


# ------------------------------------------------------------------ L6.5b the limit itself is accepted
def l65b(maxfrags):
    """the fragmentation limit is MAX_FRAGMENT_SIZE * MAX_FRAGMENTS, and a payload of exactly that size is still sent.
    The guard and the split loop read Packet.MAX_FRAGMENTS at run time; to keep the unrolling small the harness sets it
    to `maxfrags` (production: 8192) and lets the length range over the whole neighbourhood of the limit."""
    c = mk_conn(mtu_sym=False)
    saved = Packet.MAX_FRAGMENTS
    Packet.MAX_FRAGMENTS = maxfrags
    try:
        limit = Packet.MAX_FRAGMENT_SIZE * maxfrags
        payload, L = rope.blob('p', limit - Packet.MAX_FRAGMENT_SIZE, limit + Packet.MAX_FRAGMENT_SIZE)
        try:
            c.send(payload, RetryMode.RETRY_ON_TIMEOUT, None)
            raised = False
        except ValueError:
            raised = True
    finally:
        Packet.MAX_FRAGMENTS = saved
    check(Iff(raised, L > limit), 'a payload is refused exactly when it is larger than MAX_FRAGMENT_SIZE * MAX_FRAGMENTS')
    if not raised:
        q = c.outgoing_messages
        check(len(q) <= maxfrags, 'an accepted payload needs at most MAX_FRAGMENTS fragments')
        bodies = [conn.FragmentSender.parsePayload(m.payload)[3] for m in q]
        check(conn.__dict__['__sx_join__'](b'', bodies) == payload, 'the accepted payload is queued completely')
    else:
        check(len(c.outgoing_messages) == 0, 'nothing queued for a refused payload')


def replay_l65b(cfg, m):
    c = real('mpgameserver.connection')
    cn = c.ConnectionBase(False, ('p', 1))
    cn.status = c.ConnectionStatus.CONNECTED
    saved = c.Packet.MAX_FRAGMENTS
    c.Packet.MAX_FRAGMENTS = cfg['maxfrags']
    try:
        limit = c.Packet.MAX_FRAGMENT_SIZE * cfg['maxfrags']
        n = m.get('p_len', limit)
        try:
            cn.send(bytes(n), c.RetryMode.RETRY_ON_TIMEOUT, None)
            raised = False
        except ValueError:
            raised = True
    finally:
        c.Packet.MAX_FRAGMENTS = saved
    return raised != (n > limit), 'MAX_FRAGMENTS=%d: payload of %d bytes (limit %d): refused=%s' % (cfg['maxfrags'], n, limit, raised)


R.add('L6.5b', l65b, lambda tier: [dict(maxfrags=3)] if tier == 'quick' else [dict(maxfrags=3), dict(maxfrags=8)], replay=replay_l65b,
      desc='payload lengths around MAX_FRAGMENT_SIZE*MAX_FRAGMENTS (MAX_FRAGMENTS lowered to 3 / 8 for the unrolling): refused <=> above the limit',
      expect=['a payload is refused exactly when it is larger than MAX_FRAGMENT_SIZE * MAX_FRAGMENTS', 'the accepted payload is queued completely'],
      bounds='MAX_FRAGMENTS set to 3 (thorough also 8) instead of 8192; length within one fragment of the limit on both sides')


# ------------------------------------------------------------------ L6.2 one reassembly step
def mk_ctx(rx, fid, n, name, now):
    """arbitrary receiver context for fragment id `fid` with n slots, a symbolic subset filled"""
    r = conn.FragmentReceiver(rx, n, now)
    r.ctime = now          # fresh enough not to expire in this step (expiry: L6.4)
    filled = []
    for i in range(n):
        if bool(symbool('%s_filled%d' % (name, i))):
            b, L = rope.blob('%s_slot%d' % (name, i), 1, 2000)
            r.fragments[i] = b
            filled.append(True)
        else:
            filled.append(False)
    r.msgseq = SeqNum(symint(name + '_msgseq', 0, 65535))
    rx.received_fragments[fid] = r
    return r, filled


def frag_msg(fid, idx, cnt, body):
    return conn.struct.pack('>HHH', fid, idx, cnt) + body


def l62(n):
    rx = mk_conn(server=True, mtu_sym=False)
    clock = env_m.set_clock(env_m.Clock(start=1000.0))
    rx.clock = clock
    fid = SeqNum(symint('fid', 1, 65535))
    other_id = SeqNum(symint('other_id', 1, 65535))
    assume(other_id != fid)
    ctx, filled = mk_ctx(rx, fid, n, 'c', 1000.0)
    octx, ofilled = mk_ctx(rx, other_id, 2, 'o', 1000.0)
    assume(Not(And(*ofilled)) if all(isinstance(x, bool) for x in ofilled) else True)
    if all(filled) or all(ofilled):
        # a complete context never stays in the table (it is delivered and removed at once)
        raise core.Abort()
    before = list(ctx.fragments)
    obefore = list(octx.fragments)
    idx = symint('idx', 0, n + 2)
    body, bl = rope.blob('body', 1, 2000)
    mseq = SeqNum(symint('mseq', 1, 65535))
    rx._recvAppFragment(mseq, frag_msg(fid, idx, n, body))
    # other context untouched
    check(other_id in rx.received_fragments and rx.received_fragments[other_id] is octx, 'other context kept')
    check(all(a is b for a, b in zip(octx.fragments, obefore)), 'a fragment only touches the context of its own id')
    inrange = bool(And(idx >= 1, idx <= n))
    after = list(before)
    if inrange:
        i = core.concrete(idx) - 1
        if after[i] is None:
            after[i] = body
    complete = all(x is not None for x in after)
    if complete:
        check(len(rx.incoming_messages) == 1, 'a completed context is delivered exactly once')
        dseq, data = rx.incoming_messages[0]
        whole = conn.__dict__['__sx_join__'](b'', after)
        check(data == whole, 'delivered payload == concatenation of the slots in index order')
        check(fid not in rx.received_fragments, 'context removed after delivery')
        first_now = bool(And(idx == 1)) if inrange else False
        check(dseq == (mseq if first_now else ctx.msgseq), 'delivered seq is the seq of fragment 1')
    else:
        check(len(rx.incoming_messages) == 0, 'nothing delivered from an incomplete context')
        check(fid in rx.received_fragments, 'incomplete context kept')
        same = [(a is None and b is None) or (a is not None and b is not None and (a is b or (a == b)))
                for a, b in zip(ctx.fragments, after)]
        check(And(*same), 'slot written once; duplicates and out-of-range indexes ignored')


def replay_l62(cfg, m):
    import os
    c = real('mpgameserver.connection')
    n = cfg['n']
    rx = c.ConnectionBase(True, ('p', 1))
    rx.clock = lambda: 1000.0
    import unittest.mock as um
    with um.patch.object(c.time, 'time', lambda: 1000.0):
        fid, oid = m['fid'], m['other_id']
        ctx = c.FragmentReceiver(rx, n, 1000.0)
        slots = []
        for i in range(n):
            if m.get('c_filled%d' % i):
                ctx.fragments[i] = os.urandom(m.get('c_slot%d_len' % i, 1))
        ctx.msgseq = c.SeqNum(m.get('c_msgseq', 0))
        rx.received_fragments[fid] = ctx
        octx = c.FragmentReceiver(rx, 2, 1000.0)
        for i in range(2):
            if m.get('o_filled%d' % i):
                octx.fragments[i] = os.urandom(m.get('o_slot%d_len' % i, 1))
        rx.received_fragments[oid] = octx
        obefore = list(octx.fragments)
        before = list(ctx.fragments)
        body = os.urandom(m.get('body_len', 1))
        idx = m['idx']
        rx._recvAppFragment(c.SeqNum(m['mseq']), c.struct.pack('>HHH', fid, idx, n) + body)
        after = list(before)
        if 1 <= idx <= n and after[idx - 1] is None:
            after[idx - 1] = body
        bad = octx.fragments != obefore or rx.received_fragments.get(oid) is not octx
        if all(x is not None for x in after):
            bad = bad or len(rx.incoming_messages) != 1 or rx.incoming_messages[0][1] != b''.join(after) or fid in rx.received_fragments
        else:
            bad = bad or rx.incoming_messages or ctx.fragments != after or fid not in rx.received_fragments
    return bool(bad), 'idx=%d n=%d' % (idx, n)


R.add('L6.2', l62, lambda tier: [dict(n=n) for n in ((1, 2, 3) if tier == 'quick' else (1, 2, 3, 4, 5, 6))],
      replay=replay_l62,
      desc='_recvAppFragment from an arbitrary context: slot written once, completion <=> all slots, exact payload, other ids untouched',
      expect=['delivered payload == concatenation of the slots in index order',
              'slot written once; duplicates and out-of-range indexes ignored',
              'a fragment only touches the context of its own id'],
      bounds='n <= 3 (thorough 6) slots, symbolic filled subset, bodies 1..2000 bytes')


# ------------------------------------------------------------------ L6.3 end to end
def l63(maxfrag, steps):
    """real sender splits; the fragments (plus one unrelated APP message and a second fragmented
    message) reach the real receiver in an arbitrary order with duplicates: exactly the sent
    payloads are delivered, byte-identical, at most once each."""
    tx = mk_conn(mtu_sym=True)
    payload, L = rope.blob('p', 0, None)
    assume(L > Packet.MAX_PAYLOAD_SIZE)
    assume(L <= Packet.MAX_PAYLOAD_SIZE + (maxfrag - 1) * Packet.MAX_FRAGMENT_SIZE)
    tx.send(payload, RetryMode.NONE, None)
    frags = list(tx.outgoing_messages)
    small, SL = rope.blob('s', 0, None)
    assume(SL <= Packet.MAX_PAYLOAD_SIZE)
    tx.send(small, RetryMode.NONE, None)
    app = tx.outgoing_messages[-1]
    rx = conn.ConnectionBase(True, ('p', 1))
    clock = env_m.set_clock(env_m.Clock(start=1000.0))
    rx.clock = clock
    pool = frags + [app]
    seen = set()
    for s in range(steps):
        k = choose(len(pool) + 1, 'deliver')
        if k == len(pool):
            break
        m = pool[k]
        # duplicates are delivered too: the real _recv_message (message window + fragment layer)
        # has to cope with them
        rx._recv_message(m.type, m.seq, m.payload)
        seen.add(k)
    delivered = rx.incoming_messages
    nfrag_seen = len([k for k in seen if k < len(frags)])
    for seqn, data in delivered:
        ok = Or(data == payload, data == small)
        check(ok, 'every delivered message is byte-identical to a sent message')
    big = [d for s_, d in delivered if bool(d == payload)] if delivered else []
    if nfrag_seen == len(frags):
        check(len(big) == 1, 'all fragments arrived (any order, with duplicates) => delivered exactly once')
    else:
        check(len(big) == 0, 'missing fragment => large payload not delivered')


def replay_l63(cfg, m):
    import os
    c = real('mpgameserver.connection')
    proto.replay_set_mtu(c, m)
    import unittest.mock as um
    try:
        with um.patch.object(c.time, 'time', lambda: 1000.0):
            tx = c.ConnectionBase(False, ('p', 1))
            tx.status = c.ConnectionStatus.CONNECTED
            payload = os.urandom(m['p_len'])
            tx.send(payload)
            frags = list(tx.outgoing_messages)
            small = os.urandom(m.get('s_len', 0))
            tx.send(small)
            app = tx.outgoing_messages[-1]
            rx = c.ConnectionBase(True, ('p', 1))
            rx.clock = lambda: 1000.0
            pool = frags + [app]
            order = [v for k, v in sorted(((k, v) for k, v in m.items() if k.startswith('deliver#')), key=lambda kv: int(kv[0].split('#')[1]))]
            seen = set()
            for k in order:
                if k >= len(pool):
                    break
                pm = pool[k]
                rx._recv_message(pm.type, pm.seq, pm.payload)
                seen.add(k)
            bad = False
            for s_, d in rx.incoming_messages:
                if d != payload and d != small:
                    bad = True
            big = [d for s_, d in rx.incoming_messages if d == payload]
            nseen = len([k for k in seen if k < len(frags)])
            if nseen == len(frags):
                bad = bad or len(big) != 1
            else:
                bad = bad or len(big) != 0
            return bad, 'order=%s frags=%d delivered=%d' % (order, len(frags), len(rx.incoming_messages))
    finally:
        c.Packet.setMTU(1500)


R.add('L6.3', l63, lambda tier: [dict(maxfrag=3, steps=4)] if tier == 'quick' else [dict(maxfrag=3, steps=5), dict(maxfrag=4, steps=5)],
      replay=replay_l63,
      desc='sender fragments -> receiver under an arbitrary order-with-duplicates schedule, interleaved with an APP message',
      expect=['all fragments arrived (any order, with duplicates) => delivered exactly once',
              'every delivered message is byte-identical to a sent message'],
      bounds='<= 3 fragments / 4 deliveries (thorough 4 / 5), symbolic MTU and lengths')



# ------------------------------------------------------------------ L6.4 retransmitted fragment == original
def l64(maxfrag):
    """a fragment that timed out is queued again: what is re-sent must be the same fragment
    message (6-byte (id,index,count) prefix included), or the receiver would reassemble garbage"""
    tx = mk_conn(mtu_sym=False)
    # the connection has any history: the message counter stands anywhere on the ring, also right before the 65535 -> 1 wrap
    tx.seq_message = conn.SeqNum(symint('msg_seq_before', 1, 65535))
    payload, L = rope.blob('p', 0, None)
    assume(L > Packet.MAX_PAYLOAD_SIZE)
    assume(L <= Packet.MAX_PAYLOAD_SIZE + (maxfrag - 1) * Packet.MAX_FRAGMENT_SIZE)
    retry = [RetryMode.BEST_EFFORT, RetryMode.RETRY_ON_TIMEOUT][choose(2, 'retry')]
    tx.send(payload, retry, None)
    frags = list(tx.outgoing_messages)
    tx.outgoing_messages = []
    if bool(symbool('another_fragmented_send_in_between')):
        # the connection has moved on: a newer fragmented message was started before the timeout fires
        other, OL = rope.blob('other', 0, None)
        assume(And(OL > Packet.MAX_PAYLOAD_SIZE, OL <= Packet.MAX_PAYLOAD_SIZE + Packet.MAX_FRAGMENT_SIZE))
        tx.send(other, retry, None)
        tx.outgoing_messages = []
    if bool(symbool('mtu_changed_in_flight')):
        # configuration at an unusual moment: the process-wide MTU is changed while the fragment awaits its retransmission;
        # what was split under the old MTU must be re-sent as it was split
        Packet.setMTU(symint('mtu_later', 512, 1500))
    k = choose(len(frags), 'timed_out_fragment')
    orig = frags[k]
    check(orig.callback is not None, 'fragment carries its sender callback')
    orig.callback(False)                       # the datagram that carried fragment k timed out
    check(len(tx.outgoing_messages) == 1, 'a timed-out fragment of a retried send is queued again')
    again = tx.outgoing_messages[0]
    check(again.type == PacketType.APP_FRAGMENT, 're-queued as a fragment message')
    check(again.payload == orig.payload, 're-sent fragment == original fragment message (header included)')
    check(again.seq == orig.seq, 're-sent fragment keeps the message sequence number it was first sent under (ring arithmetic, also across the wrap)')


def replay_l64(cfg, m):
    import os
    c = real('mpgameserver.connection')
    tx = c.ConnectionBase(False, ('p', 1))
    tx.status = c.ConnectionStatus.CONNECTED
    tx.seq_message = c.SeqNum(m.get('msg_seq_before', 1))
    mode = [c.RetryMode.BEST_EFFORT, c.RetryMode.RETRY_ON_TIMEOUT][[v for k, v in m.items() if k.startswith('retry')][0]]
    tx.send(os.urandom(m['p_len']), mode, None)
    frags = list(tx.outgoing_messages)
    tx.outgoing_messages = []
    if m.get('another_fragmented_send_in_between'):
        tx.send(os.urandom(m.get('other_len', 2000)), mode, None)
        tx.outgoing_messages = []
    k = [v for kk, v in m.items() if kk.startswith('timed_out_fragment')][0]
    try:
        if m.get('mtu_changed_in_flight'):
            c.Packet.setMTU(m.get('mtu_later', 1500))
        frags[k].callback(False)
        if len(tx.outgoing_messages) != 1:
            return True, 'not re-queued'
        again = tx.outgoing_messages[0]
        if int(again.seq) != int(frags[k].seq):
            return True, 'fragment %d first sent as message seq %d, re-sent as %d (counter stood at %d before the send)' % (k, int(frags[k].seq), int(again.seq), m.get('msg_seq_before', 1))
        return again.payload != frags[k].payload, 'orig %d bytes, re-sent %d bytes%s' % (
            len(frags[k].payload), len(again.payload), ' (MTU changed to %d in flight)' % m.get('mtu_later', 1500) if m.get('mtu_changed_in_flight') else '')
    finally:
        c.Packet.setMTU(1500)


R.add('L6.4', l64, lambda tier: [dict(maxfrag=3 if tier == 'quick' else 5)], replay=replay_l64,
      desc='FragmentSender.callback(False): the re-queued fragment is byte-identical to the original fragment message',
      expect=['re-sent fragment == original fragment message (header included)'])

for _lid in ['L6.1', 'L6.3', 'L6.5', 'L6.5b']:
    if _lid in R.lemmas:
        R.lemmas[_lid].api = True

get_harness = R.get_harness
