#!/bin/sh
# Offline, idempotent: overlay venv on /venv (repo deps) + z3-solver from the local wheelhouse.
set -e
cd "$(dirname "$0")"
if [ -x .venv/bin/python ] && .venv/bin/python -c "import z3, cryptography" 2>/dev/null; then
    exit 0
fi
rm -rf .venv
/venv/bin/python -m venv .venv
SP=$(.venv/bin/python -c "import sysconfig; print(sysconfig.get_paths()['purelib'])")
printf "import site; site.addsitedir('/venv/lib/python3.12/site-packages')\n" > "$SP/_overlay.pth"
PIP_NO_INDEX=1 .venv/bin/python -m pip install -q --no-index --find-links /opt/veriftools/wheels z3-solver >/dev/null
.venv/bin/python -c "import z3, cryptography; print('setup ok: z3', z3.get_version_string())"
