"""Regular expressions -> z3 Re terms (direct SMT encoding, DESIGN §2.2), with capture markers.

The pattern string produced by the real code is parsed with CPython's own ``re._parser`` and
translated node for node.  Capture group k is bracketed by two marker characters
(open = chr(1+2k), close = chr(2+2k)) that the ordinary alphabet CH excludes, so questions about
what a group can capture become plain regular-language inclusions.
"""
import re

import z3

try:
    _parser = re._parser
    _const = re._constants
except AttributeError:  # pragma: no cover
    import sre_parse as _parser
    import sre_constants as _const


class RxUnsupported(Exception):
    pass


def S(s):
    return z3.StringVal(s)


# ordinary path characters: everything except control characters (so no '\n' and no markers)
def alphabet():
    return z3.Union(z3.Range(S('\x20'), S('\x7e')), z3.Range(S('\x80'), S('￿')))


def lit(s):
    return z3.Re(S(s))


def char_except(excl):
    a = alphabet()
    for c in excl:
        a = z3.Intersect(a, z3.Complement(lit(c)))
    return a


def open_m(k):
    return chr(1 + 2 * (k - 1))


def close_m(k):
    return chr(2 + 2 * (k - 1))


EPS = None


def eps():
    return z3.Re(S(''))


def cat(*rs):
    rs = [r for r in rs if r is not None]
    if not rs:
        return eps()
    if len(rs) == 1:
        return rs[0]
    return z3.Concat(*rs)


def alt(*rs):
    if len(rs) == 1:
        return rs[0]
    return z3.Union(*rs)


def _class(items):
    neg = False
    parts = []
    for op, av in items:
        if op is _const.NEGATE:
            neg = True
        elif op is _const.LITERAL:
            parts.append(lit(chr(av)))
        elif op is _const.RANGE:
            parts.append(z3.Range(S(chr(av[0])), S(chr(av[1]))))
        else:
            raise RxUnsupported('class item %s' % (op,))
    u = alt(*parts) if parts else z3.Empty(z3.ReSort(z3.StringSort()))
    if neg:
        return z3.Intersect(alphabet(), z3.Complement(u))
    return z3.Intersect(alphabet(), u)


def _seq(items, marks):
    out = []
    for op, av in items:
        if op is _const.LITERAL:
            out.append(lit(chr(av)))
        elif op is _const.NOT_LITERAL:
            out.append(char_except([chr(av)]))
        elif op is _const.ANY:
            out.append(alphabet())
        elif op is _const.IN:
            out.append(_class(av))
        elif op is _const.SUBPATTERN:
            g, add, dele, p = av
            inner = _seq(p, marks)
            if g is not None and marks:
                inner = cat(lit(open_m(g)), inner, lit(close_m(g)))
            out.append(inner)
        elif op is _const.BRANCH:
            out.append(alt(*[_seq(p, marks) for p in av[1]]))
        elif op in (_const.MAX_REPEAT, _const.MIN_REPEAT):
            lo, hi, p = av
            inner = _seq(p, marks)
            if hi == _const.MAXREPEAT:
                if lo == 0:
                    out.append(z3.Star(inner))
                elif lo == 1:
                    out.append(z3.Plus(inner))
                else:
                    out.append(cat(z3.Loop(inner, lo, lo), z3.Star(inner)))
            elif lo == 0 and hi == 1:
                out.append(z3.Option(inner))
            else:
                out.append(z3.Loop(inner, lo, hi))
        elif op is _const.AT:
            raise RxUnsupported('anchor inside the pattern')
        else:
            raise RxUnsupported('regex node %s' % (op,))
    return cat(*out)


def translate(pattern, marks=True):
    """language of ``re.compile(pattern).match(s)`` over the ordinary alphabet (plus markers)"""
    p = list(_parser.parse(pattern))
    if p and p[0][0] is _const.AT and p[0][1] is _const.AT_BEGINNING:
        p = p[1:]
    anchored_end = False
    if p and p[-1][0] is _const.AT and p[-1][1] in (_const.AT_END, _const.AT_END_STRING):
        p = p[:-1]
        anchored_end = True
    r = _seq(p, marks)
    if not anchored_end:
        r = cat(r, z3.Star(alphabet()))       # match() is a prefix match without '$'
    return r


def ngroups(pattern):
    return re.compile(pattern).groups
