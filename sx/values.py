"""Proxy-aware containers and the shimmed builtins installed into instrumented modules."""
import builtins

import z3

from . import core
from .core import SxInt, SxBool, SxReal, Unsupported, E, mkbool, tobool

_isinstance = builtins.isinstance
_type = builtins.type
_len = builtins.len
_range = builtins.range
_min = builtins.min
_max = builtins.max


def _symbolic_key(k):
    if _isinstance(k, SxInt):
        return k.z is not None
    if _isinstance(k, (SxBool, SxReal)):
        return True
    if hasattr(k, '__sx_symbolic__'):
        return k.__sx_symbolic__()
    if _isinstance(k, tuple):
        return any(_symbolic_key(x) for x in k)
    v = getattr(k, 'value', None)   # SerializableEnum members hash by value
    if v is not None and v is not k and hasattr(k, '_value2name'):
        return _symbolic_key(v)
    return False


def keys_equal(a, b):
    """-> python bool or SxBool"""
    if a is b:
        return True
    try:
        r = (a == b)
    except TypeError:
        return False
    if r is NotImplemented:
        return False
    return r


class SxDict:
    """insertion-ordered association list; key lookup decides equality with the solver when a
    key is symbolic.  Mirrors the dict API used by the code under test."""
    __slots__ = ('_k', '_v', '_h')

    def __init__(self, *a, **kw):
        self._k = []
        self._v = []
        self._h = {}      # hash index for concrete keys: key -> position
        if a:
            self.update(a[0])
        if kw:
            self.update(kw)

    # -- lookup
    def _find(self, key):
        sym = _symbolic_key(key)
        if not sym and self._h is not None:
            try:
                i = self._h.get(key, -1)
            except TypeError:
                raise
            if i >= 0:
                return i
            # no concrete key equal; symbolic stored keys may still be equal
            for i, k in enumerate(self._k):
                if _symbolic_key(k) and bool(keys_equal(k, key)):
                    return i
            return -1
        for i, k in enumerate(self._k):
            if bool(keys_equal(k, key)):
                return i
        return -1

    def _reindex(self):
        self._h = {}
        for i, k in enumerate(self._k):
            if not _symbolic_key(k):
                self._h[k] = i

    def __contains__(self, key):
        """membership only: one decision on a disjunction instead of one fork per key"""
        sym = _symbolic_key(key)
        if not sym:
            try:
                if key in self._h:
                    return True
            except TypeError:
                pass
        conds = []
        for k in self._k:
            if not sym and not _symbolic_key(k):
                continue
            r = keys_equal(k, key)
            if r is True:
                return True
            if r is False:
                continue
            conds.append(r)
        if not conds:
            return False
        return bool(core.Or(*conds))

    def __getitem__(self, key):
        i = self._find(key)
        if i < 0:
            raise KeyError(key)
        return self._v[i]

    def __setitem__(self, key, value):
        i = self._find(key)
        if i >= 0:
            self._v[i] = value
            return
        self._k.append(key)
        self._v.append(value)
        if not _symbolic_key(key):
            self._h[key] = _len(self._k) - 1

    def __delitem__(self, key):
        i = self._find(key)
        if i < 0:
            raise KeyError(key)
        del self._k[i]
        del self._v[i]
        self._reindex()

    def get(self, key, default=None):
        i = self._find(key)
        return self._v[i] if i >= 0 else default

    def pop(self, key, *default):
        i = self._find(key)
        if i < 0:
            if default:
                return default[0]
            raise KeyError(key)
        v = self._v[i]
        del self._k[i]
        del self._v[i]
        self._reindex()
        return v

    def popitem(self):
        if not self._k:
            raise KeyError('popitem(): dictionary is empty')
        k = self._k.pop()
        v = self._v.pop()
        self._reindex()
        return k, v

    def setdefault(self, key, default=None):
        i = self._find(key)
        if i >= 0:
            return self._v[i]
        self[key] = default
        return default

    def update(self, other=(), **kw):
        if hasattr(other, 'keys'):
            for k in other.keys():
                self[k] = other[k]
        else:
            for k, v in other:
                self[k] = v
        for k, v in kw.items():
            self[k] = v

    def clear(self):
        self._k = []
        self._v = []
        self._h = {}

    def copy(self):
        d = SxDict()
        d._k = list(self._k)
        d._v = list(self._v)
        d._h = dict(self._h)
        return d

    def restore_from(self, other):
        self._k = list(other._k)
        self._v = list(other._v)
        self._h = dict(other._h)

    def keys(self):
        return list(self._k)

    def values(self):
        return list(self._v)

    def items(self):
        return list(zip(self._k, self._v))

    def __iter__(self):
        return iter(list(self._k))

    def __len__(self):
        return _len(self._k)

    def __bool__(self):
        return bool(self._k)

    def __repr__(self):
        return 'SxDict(%r)' % (self.items(),)

    def __eq__(self, other):
        if _isinstance(other, (SxDict, dict)):
            if _len(other) != _len(self):
                return False
            for k, v in self.items():
                if k not in other:
                    return False
                r = (other[k] == v)
                if not bool(r):
                    return False
            return True
        return NotImplemented

    def __ne__(self, other):
        r = self.__eq__(other)
        return r if r is NotImplemented else not r

    __hash__ = None

    @classmethod
    def fromkeys(cls, it, v=None):
        d = cls()
        for k in it:
            d[k] = v
        return d


class SxSet:
    """set over possibly symbolic members.  Symbolic members are stored without eager
    de-duplication (membership is a disjunction); len/iteration de-duplicate on demand."""
    __slots__ = ('_d', '_lazy')

    def __init__(self, it=()):
        self._d = SxDict()
        self._lazy = []
        for x in it:
            self.add(x)

    def add(self, x):
        if _symbolic_key(x):
            self._lazy.append(x)
        else:
            self._d[x] = True

    def _settle(self):
        if self._lazy:
            lz, self._lazy = self._lazy, []
            for x in lz:
                self._d[x] = True

    def discard(self, x):
        self._settle()
        self._d.pop(x, None)

    def remove(self, x):
        self._settle()
        del self._d[x]

    def __contains__(self, x):
        if x in self._d:
            return True
        conds = []
        for k in self._lazy:
            r = keys_equal(k, x)
            if r is True:
                return True
            if r is False:
                continue
            conds.append(r)
        return bool(core.Or(*conds)) if conds else False

    def __iter__(self):
        self._settle()
        return iter(self._d)

    def __len__(self):
        self._settle()
        return _len(self._d)

    def __bool__(self):
        return bool(self._d) or bool(self._lazy)

    def copy(self):
        s = SxSet()
        s._d = self._d.copy()
        s._lazy = list(self._lazy)
        return s

    def restore_from(self, other):
        self._d.restore_from(other._d)
        self._lazy = list(other._lazy)

    def update(self, it):
        for x in it:
            self.add(x)

    def clear(self):
        self._d.clear()
        self._lazy = []

    def __or__(self, o):
        s = self.copy()
        s.update(o)
        return s

    def __and__(self, o):
        return SxSet(x for x in self if x in o)

    def __sub__(self, o):
        return SxSet(x for x in self if x not in o)

    def __eq__(self, o):
        if _isinstance(o, (SxSet, set, frozenset)):
            if _len(o) != _len(self):
                return False
            return all(x in o for x in self) and all(x in self for x in o)
        return NotImplemented

    def __ne__(self, o):
        r = self.__eq__(o)
        return r if r is NotImplemented else not r

    __hash__ = None

    def __repr__(self):
        return 'SxSet(%r)' % (list(self._d) + self._lazy,)


import collections.abc as _abc  # noqa: E402
_abc.MutableMapping.register(SxDict)
_abc.MutableSet.register(SxSet)


def sx_dict_literal(pairs):
    d = SxDict()
    for k, v in pairs:
        d[k] = v
    return d


def sx_set_literal(items):
    return SxSet(items)


# ------------------------------------------------------------------ shims

class _ShimMeta(type):
    def __instancecheck__(cls, x):
        return cls._check(x)


class SxBoolType(metaclass=_ShimMeta):
    __name__ = 'bool'

    def __new__(cls, x=False):
        if _isinstance(x, SxBool):
            return x
        if _isinstance(x, SxInt) and x.z is not None:
            return mkbool(x.z != 0)
        if _isinstance(x, SxReal):
            return mkbool(x.z != 0)
        return builtins.bool(x)

    @staticmethod
    def _check(x):
        return _isinstance(x, (builtins.bool, SxBool))


SxBoolType.__name__ = 'bool'
SxBoolType.__qualname__ = 'bool'


class SxFloatType(metaclass=_ShimMeta):
    def __new__(cls, x=0.0):
        if _isinstance(x, SxReal):
            return x
        if _isinstance(x, SxInt) and x.z is not None:
            return SxReal(z3.ToReal(x.iterm()))
        if type(x).__name__ == 'FloatTok':
            return x
        return builtins.float(x)

    @staticmethod
    def _check(x):
        return _isinstance(x, (builtins.float, SxReal)) or type(x).__name__ == 'FloatTok'


SxFloatType.__name__ = 'float'
SxFloatType.__qualname__ = 'float'
SxInt.__name__ = 'int'
SxInt.__qualname__ = 'int'

TYPE_MAP = {}     # real builtin type -> shim type (filled below and by rope.py)


def sx_isinstance(x, t):
    if not _isinstance(t, tuple):
        t = (t,)
    for c in t:
        if _isinstance(c, tuple):
            if sx_isinstance(x, c):
                return True
            continue
        if c is SxInt or c is builtins.int:
            if _isinstance(x, (builtins.int, SxInt, SxBool)):
                return True
        elif c is builtins.bool:
            if _isinstance(x, (builtins.bool, SxBool)):
                return True
        elif c is builtins.float or c is SxFloatType:
            if _isinstance(x, (builtins.float, SxReal)) or type(x).__name__ == 'FloatTok':
                return True
        elif c is SxDict or c is builtins.dict:
            if _isinstance(x, (SxDict, builtins.dict)):
                return True
        elif c is SxSet or c is builtins.set:
            if _isinstance(x, (SxSet, builtins.set)):
                return True
        elif c in REAL_OF_SHIM:
            if _isinstance(x, (c, REAL_OF_SHIM[c])):
                return True
        elif c in TYPE_MAP:
            if _isinstance(x, (c, TYPE_MAP[c])):
                return True
        elif _isinstance(x, c):
            return True
    return False


REAL_OF_SHIM = {}   # shim type -> real type


def register_shim(real, shim):
    TYPE_MAP[real] = shim
    REAL_OF_SHIM[shim] = real


register_shim(builtins.int, SxInt)
register_shim(builtins.bool, SxBoolType)
register_shim(builtins.float, SxFloatType)
register_shim(builtins.dict, SxDict)
register_shim(builtins.set, SxSet)
SxDict.__name__ = 'dict'
SxSet.__name__ = 'set'


def sx_typeof(x):
    t = _type(x)
    if t is SxBool:
        return SxBoolType
    if t is SxReal:
        return SxFloatType
    return TYPE_MAP.get(t, t)


def sx_type_call(f, x):
    """rewritten ``type(x)``: ``f`` is whatever the name ``type`` is bound to at the call site"""
    if f is _type:
        return sx_typeof(x)
    return f(x)


def sx_len(x):
    if hasattr(x, '__sxlen__'):
        return x.__sxlen__()
    return _len(x)


def _has_sym(args):
    for x in args:
        if core.is_sym(x) or hasattr(x, '__sxlen__'):
            return True
    return False


def sx_mod(a, b):
    if _isinstance(a, str):
        args = b if _isinstance(b, tuple) else (b,)
        if _has_sym(args):
            return '<fmt>'
        try:
            return a % b
        except core.SxControl:
            raise
        except Exception:
            raise
    if _isinstance(a, builtins.bytes) and not hasattr(b, '__sxlen__') and not core.is_sym(b):
        return a % b
    return a % b


def sx_join(sep, items):
    from . import rope
    return rope.join(sep, items)


class _LazyRange:
    """range() whose bound may be symbolic: one fork per iteration (continue / stop)"""

    def __init__(self, *a):
        if _len(a) == 1:
            self.start, self.stop, self.step = 0, a[0], 1
        elif _len(a) == 2:
            self.start, self.stop, self.step = a[0], a[1], 1
        else:
            self.start, self.stop, self.step = a
        if core.is_sym(self.step) or core.is_sym(self.start):
            raise Unsupported('range with symbolic start/step')

    def __iter__(self):
        i = self.start
        while True:
            c = (i < self.stop) if self.step > 0 else (i > self.stop)
            if not c:
                return
            yield i
            i += self.step

    def __len__(self):
        return core.concrete(self.__sxlen__())

    def __sxlen__(self):
        if self.step != 1 or self.start != 0:
            raise Unsupported('len of general symbolic range')
        return sx_max(0, self.stop)


def sx_range(*a):
    if any(core.is_sym(x) for x in a):
        return _LazyRange(*a)
    return _range(*[builtins.int(x) for x in a])


def _num(x):
    return _isinstance(x, (builtins.int, builtins.float, SxInt, SxReal, SxBool))


def sx_min(*a, **k):
    seq = tuple(a[0]) if _len(a) == 1 else a
    if not k and seq and all(_num(x) for x in seq) and any(core.is_sym(x) for x in seq):
        r = seq[0]
        for x in seq[1:]:
            r = core.ite(x < r, x, r)
        return r
    return _min(seq, **k)


def sx_max(*a, **k):
    seq = tuple(a[0]) if _len(a) == 1 else a
    if not k and seq and all(_num(x) for x in seq) and any(core.is_sym(x) for x in seq):
        r = seq[0]
        for x in seq[1:]:
            r = core.ite(x > r, x, r)
        return r
    return _max(seq, **k)


def sx_sum(it, start=0):
    r = start
    for x in it:
        r = r + x
    return r


def sx_abs(x):
    return abs(x)


def sx_hash(x):
    return hash(x)


from . import rope as _rope  # noqa: E402

register_shim(builtins.bytes, _rope.SxBytes)
TYPE_MAP[_rope.Rope] = _rope.SxBytes
register_shim(builtins.bytearray, _rope.SxByteArrayType)
TYPE_MAP[_rope.ByteArray] = _rope.SxByteArrayType

from . import text as _text  # noqa: E402

register_shim(builtins.str, _text.SxStr)
TYPE_MAP[_text.Text] = _text.SxStr

from .floats import FloatTok as _FloatTok  # noqa: E402
TYPE_MAP[_FloatTok] = SxFloatType

SHIM_BUILTINS = {
    'str': _text.SxStr,
    'bytes': _rope.SxBytes,
    'bytearray': _rope.SxByteArrayType,
    'int': SxInt,
    'bool': SxBoolType,
    'float': SxFloatType,
    'dict': SxDict,
    'set': SxSet,
    'isinstance': sx_isinstance,
    'len': sx_len,
    'range': sx_range,
    'min': sx_min,
    'max': sx_max,
    'sum': sx_sum,
}
