"""Ideal / uninterpreted models of the `cryptography` primitives used by /repo (DESIGN §3).

AEAD   : encrypt returns a fresh opaque blob of len(pt)+16 and records (key, iv, aad, pt);
         decrypt returns pt iff data is exactly such a blob and key, iv, aad match; else InvalidTag.
ECDSA  : verify passes iff the signature blob was produced by sign() of the matching private key
         over equal data; else InvalidSignature.
ECDH   : exchange is an uninterpreted symmetric function of the two key identities.
HKDF, SHA-256, scrypt: uninterpreted functions of their arguments (same arguments -> same blob;
         different arguments -> unrelated blobs whose equality is a free Boolean).
"""
import types

import z3
from cryptography import exceptions as _exc

from .. import core, rope
from ..core import SxInt, Unsupported, E

InvalidTag = _exc.InvalidTag
InvalidSignature = _exc.InvalidSignature
InvalidKey = _exc.InvalidKey


def _counter(name):
    e = E()
    k = e.tags[name] = e.tags.get(name, 0) + 1
    return k


def _as_bytes(x, what):
    if isinstance(x, rope.ByteArray):
        x = x.to_rope()
    if not isinstance(x, rope.SxBytes):
        if isinstance(x, (bytearray, memoryview)):
            return bytes(x)
        raise TypeError('%s must be bytes-like' % what)
    return x


# ------------------------------------------------------------------ AEAD

def aead_log():
    return E().tags.setdefault('aead_log', [])


class _AEAD:
    KEYLENS = (16, 24, 32)
    NAME = 'aead'

    def __init__(self, key):
        key = _as_bytes(key, 'key')
        n = rope.sx_len(key)
        n = core.concrete(n, cap=64)
        if n not in self.KEYLENS:
            raise ValueError('AESGCM key must be 128, 192, or 256 bits.')
        self.key = key

    def encrypt(self, nonce, data, associated_data):
        nonce = _as_bytes(nonce, 'nonce')
        data = _as_bytes(data, 'data')
        aad = b'' if associated_data is None else _as_bytes(associated_data, 'associated_data')
        nl = rope.sx_len(nonce)
        if bool(core.Or(nl < 8, nl > 128)):
            raise ValueError('Nonce must be between 8 and 128 bytes')
        k = _counter('aead')
        ln = rope.sx_len(data) + 16
        b = rope.Blob('%s_ct%d' % (self.NAME, k), rope._zi(ln))
        rec = dict(alg=self.NAME, key=self.key, iv=nonce, aad=aad, pt=data, blob=b, n=k)
        b.meta['aead'] = rec
        aead_log().append(rec)
        return rope.mk([('view', b, z3.IntVal(0), rope._zi(ln))])

    def decrypt(self, nonce, data, associated_data):
        nonce = _as_bytes(nonce, 'nonce')
        data = _as_bytes(data, 'data')
        aad = b'' if associated_data is None else _as_bytes(associated_data, 'associated_data')
        e = E()
        e.tags['aead_decrypt_calls'] = e.tags.get('aead_decrypt_calls', 0) + 1
        nl = rope.sx_len(nonce)
        if bool(core.Or(nl < 8, nl > 128)):
            raise ValueError('Nonce must be between 8 and 128 bytes')
        if bool(rope.sx_len(data) < 16):
            raise InvalidTag()
        b = rope.decide_full_blob(data, want=lambda bl: 'aead' in bl.meta)
        if b is None or 'aead' not in b.meta or b.meta['aead']['alg'] != self.NAME:
            raise InvalidTag()
        rec = b.meta['aead']
        ok = core.And(rope.rope_eq(rec['key'], self.key) if (rope.isrope(rec['key']) or rope.isrope(self.key)) else rec['key'] == self.key,
                      _beq(rec['iv'], nonce), _beq(rec['aad'], aad))
        if bool(ok):
            e.tags.setdefault('aead_accepted', []).append(rec)
            return rec['pt']
        raise InvalidTag()


def _beq(a, b):
    if rope.isrope(a) or rope.isrope(b):
        return rope.rope_eq(a, b)
    return a == b


class AESGCM(_AEAD):
    NAME = 'gcm'


class AESCCM(_AEAD):
    NAME = 'ccm'

    def __init__(self, key, tag_length=16):
        _AEAD.__init__(self, key)


class ChaCha20Poly1305(_AEAD):
    NAME = 'chacha'
    KEYLENS = (32,)


# ------------------------------------------------------------------ EC keys

class PrivKey:
    def __init__(self, ident):
        self.ident = ident
        self._pub = PubKey(self, ident)
        self.curve = 'secp256r1'

    def public_key(self):
        return self._pub

    def sign(self, data, alg=None):
        data = _as_bytes(data, 'data')
        k = _counter('sig')
        ln = core.symint('siglen%d' % k, 8, 72)
        b = rope.Blob('sig%d' % k, rope._zi(ln))
        b.meta['sig'] = dict(signer=self.ident, data=data)
        E().tags.setdefault('sig_log', []).append(b.meta['sig'])
        return rope.mk([('view', b, z3.IntVal(0), rope._zi(ln))])

    def exchange(self, alg, peer_public_key):
        if not isinstance(peer_public_key, PubKey):
            raise TypeError('peer_public_key must be an EllipticCurvePublicKey.')
        e = E()
        key = tuple(sorted([str(self.ident), str(peer_public_key.ident)]))
        cache = e.tags.setdefault('dh', {})
        if key not in cache:
            cache[key] = rope.Blob('dh_%s_%s' % key, z3.IntVal(32))
        b = cache[key]
        return rope.mk([('view', b, z3.IntVal(0), z3.IntVal(32))])

    def private_bytes(self, *a, **k):
        return der_of(self, 'priv', 138)

    def __repr__(self):
        return '<PrivKey %s>' % (self.ident,)


class PubKey:
    def __init__(self, priv, ident):
        self.priv = priv
        self.ident = ident
        self.curve = 'secp256r1'

    def public_bytes(self, *a, **k):
        return der_of(self, 'pub', 91)

    def verify(self, signature, data, alg=None):
        signature = _as_bytes(signature, 'signature')
        data = _as_bytes(data, 'data')
        e = E()
        e.tags['verify_calls'] = e.tags.get('verify_calls', 0) + 1
        b = rope.decide_full_blob(signature, want=lambda bl: 'sig' in bl.meta)
        if b is None or 'sig' not in b.meta:
            raise InvalidSignature()
        rec = b.meta['sig']
        if rec['signer'] != self.ident:
            raise InvalidSignature()
        if bool(_beq(rec['data'], data)):
            e.tags.setdefault('verify_ok', []).append((self.ident, data))
            return None
        raise InvalidSignature()

    def public_numbers(self):
        raise Unsupported('public_numbers')

    def __repr__(self):
        return '<PubKey %s>' % (self.ident,)


def der_of(key, kind, n):
    e = E()
    cache = e.tags.setdefault('der', {})
    k = (kind, key.ident)
    if k not in cache:
        b = rope.Blob('%s_%s' % (kind, key.ident), z3.IntVal(n))
        b.meta['der_of'] = key
        cache[k] = b
    b = cache[k]
    return rope.mk([('view', b, z3.IntVal(0), z3.IntVal(n))])


def new_private_key(name=None):
    k = _counter('key')
    return PrivKey(name or 'k%d' % k)


def generate_private_key(curve=None, backend=None):
    return new_private_key()


def load_der_public_key(der, backend=None):
    der = _as_bytes(der, 'data')
    b = rope.decide_full_blob(der, want=lambda bl: isinstance(bl.meta.get('der_of'), PubKey))
    if b is not None and 'der_of' in b.meta and isinstance(b.meta['der_of'], PubKey):
        return b.meta['der_of']
    # arbitrary bytes: either not a key (ValueError) or some foreign key the attacker owns
    if core.choose(2, 'der_parse_fails'):
        raise ValueError('Could not deserialize key data.')
    k = _counter('foreign')
    priv = PrivKey('foreign%d' % k)
    E().tags.setdefault('foreign_keys', []).append(priv)
    return priv.public_key()


def load_der_private_key(der, password=None, backend=None):
    der = _as_bytes(der, 'data')
    b = rope.full_view_blob(der) if rope.isrope(der) else None
    if b is not None and 'der_of' in b.meta and isinstance(b.meta['der_of'], PrivKey):
        return b.meta['der_of']
    raise ValueError('Could not deserialize key data.')


def _unsupported(*a, **k):
    raise Unsupported('crypto primitive without a model')


# ------------------------------------------------------------------ hashes / KDFs

def _uf_blob(tag, key, n, meta=None, args=None):
    """uninterpreted function result: one blob per distinct structural argument key; the arguments are kept
    so that rope.blob_eq can relate two results (congruence / collision freedom)"""
    e = E()
    cache = e.tags.setdefault('uf_' + tag, {})
    if key not in cache:
        b = rope.Blob('%s%d' % (tag, len(cache) + 1), rope._zi(n), meta=dict(meta or {}))
        b.meta['uf'] = tag
        if args is not None:
            b.meta['uf_args'] = list(args)
        cache[key] = b
    b = cache[key]
    return rope.mk([('view', b, z3.IntVal(0), rope._zi(n))])


def _k(x):
    if isinstance(x, (bytes, bytearray)):
        return ('lit', bytes(x))
    if rope.isrope(x):
        return rope.rope_key(x)
    if isinstance(x, SxInt):
        return ('int', x.v if x.z is None else z3.simplify(x.z).sexpr())
    return x


class SHA256:
    name = 'sha256'
    digest_size = 32


class Hash:
    def __init__(self, algorithm, backend=None):
        self.alg = algorithm
        self.data = b''

    def update(self, data):
        self.data = self.data + _as_bytes(data, 'data')

    def finalize(self):
        return _uf_blob('sha', _k(self.data), 32, meta={'sha_of': self.data}, args=[self.data])

    def copy(self):
        h = Hash(self.alg)
        h.data = self.data
        return h


class HKDF:
    def __init__(self, algorithm=None, length=None, salt=None, info=None, backend=None):
        self.length = length
        self.salt = salt
        self.info = info
        E().tags.setdefault('hkdf_lengths', []).append(length)

    def derive(self, key_material):
        km = _as_bytes(key_material, 'key_material')
        return _uf_blob('hkdf', (_k(self.salt), _k(self.info), _k(self.length), _k(km)), self.length,
                        meta={'hkdf': dict(salt=self.salt, info=self.info, length=self.length, km=km)},
                        args=[self.salt, self.info, self.length, km])


class Scrypt:
    def __init__(self, salt, length, n, r, p, backend=None):
        self.salt = _as_bytes(salt, 'salt')
        if core.is_sym(n):
            pow2 = core.Or(*[n == (1 << k) for k in range(1, 64)])
        else:
            pow2 = n >= 2 and (n & (n - 1)) == 0
        if not bool(pow2):
            raise ValueError('n must be greater than 1 and be a power of 2.')
        if bool(r < 1):
            raise ValueError('r must be greater than or equal to 1.')
        if bool(p < 1):
            raise ValueError('p must be greater than or equal to 1.')
        self.length, self.n, self.r, self.p = length, n, r, p
        self.used = False
        E().tags.setdefault('scrypt_params', []).append(dict(salt=self.salt, length=length, n=n, r=r, p=p))

    def derive(self, key_material):
        if self.used:
            raise _exc.AlreadyFinalized('Scrypt instances can only be used once.')
        self.used = True
        km = _as_bytes(key_material, 'key_material')
        return _uf_blob('scrypt', (_k(self.salt), _k(self.length), _k(self.n), _k(self.r), _k(self.p), _k(km)),
                        self.length, args=[self.salt, self.length, self.n, self.r, self.p, km])

    def verify(self, key_material, expected_key):
        derived = self.derive(key_material)
        expected_key = _as_bytes(expected_key, 'expected_key')
        if not bool(_beq(derived, expected_key)):
            raise InvalidKey('Keys do not match.')
        E().tags.setdefault('kdf_verified', []).append(dict(expected=expected_key))


def bytes_eq(a, b):
    return _beq(_as_bytes(a, 'a'), _as_bytes(b, 'b'))


# ------------------------------------------------------------------ module tree

def _mod(name, **attrs):
    m = types.ModuleType(name)
    for k, v in attrs.items():
        setattr(m, k, v)
    return m


class _Tok:
    def __init__(self, name):
        self.name = name

    def __call__(self, *a, **k):
        return self

    def __repr__(self):
        return '<%s>' % self.name


class _Enum:
    def __init__(self, name):
        self._name = name

    def __getattr__(self, k):
        if k.startswith('__'):
            raise AttributeError(k)
        return _Tok('%s.%s' % (self._name, k))


def _openssl_ec_getattr(name):
    raise ModuleNotFoundError('no openssl ec key classes in the model')


aead = _mod('cryptography.hazmat.primitives.ciphers.aead', AESGCM=AESGCM, AESCCM=AESCCM,
            ChaCha20Poly1305=ChaCha20Poly1305)
algorithms = _mod('cryptography.hazmat.primitives.ciphers.algorithms', AES=_unsupported)
modes = _mod('cryptography.hazmat.primitives.ciphers.modes', CTR=_unsupported)
ciphers = _mod('cryptography.hazmat.primitives.ciphers', Cipher=_unsupported, aead=aead,
               algorithms=algorithms, modes=modes)
hmac = _mod('cryptography.hazmat.primitives.hmac', HMAC=_unsupported)
constant_time = _mod('cryptography.hazmat.primitives.constant_time', bytes_eq=bytes_eq)
hashes = _mod('cryptography.hazmat.primitives.hashes', SHA256=SHA256, Hash=Hash)
ec = _mod('cryptography.hazmat.primitives.asymmetric.ec', ECDSA=_Tok('ECDSA'), ECDH=_Tok('ECDH'),
          SECP256R1=_Tok('SECP256R1'), generate_private_key=generate_private_key,
          EllipticCurve=object, EllipticCurvePublicKey=PubKey, EllipticCurvePrivateKey=PrivKey)
asymmetric = _mod('cryptography.hazmat.primitives.asymmetric', ec=ec)
hkdf = _mod('cryptography.hazmat.primitives.kdf.hkdf', HKDF=HKDF)
scrypt = _mod('cryptography.hazmat.primitives.kdf.scrypt', Scrypt=Scrypt)
kdf = _mod('cryptography.hazmat.primitives.kdf', hkdf=hkdf, scrypt=scrypt)
serialization = _mod('cryptography.hazmat.primitives.serialization',
                     Encoding=_Enum('Encoding'), PrivateFormat=_Enum('PrivateFormat'),
                     PublicFormat=_Enum('PublicFormat'), NoEncryption=_Tok('NoEncryption'),
                     load_der_public_key=load_der_public_key, load_der_private_key=load_der_private_key,
                     load_pem_private_key=_unsupported, load_pem_public_key=_unsupported)
primitives = _mod('cryptography.hazmat.primitives', ciphers=ciphers, hmac=hmac, constant_time=constant_time,
                  hashes=hashes, asymmetric=asymmetric, kdf=kdf, serialization=serialization)
backends = _mod('cryptography.hazmat.backends', default_backend=_Tok('backend'))
hazmat = _mod('cryptography.hazmat', primitives=primitives, backends=backends)
exceptions = _mod('cryptography.exceptions', InvalidSignature=InvalidSignature, InvalidTag=InvalidTag,
                  InvalidKey=InvalidKey, AlreadyFinalized=_exc.AlreadyFinalized)
top = _mod('cryptography', hazmat=hazmat, exceptions=exceptions)

modules = {}


def _walk(m):
    modules[m.__name__] = m
    for v in vars(m).values():
        if isinstance(v, types.ModuleType) and v.__name__.startswith(m.__name__ + '.'):
            _walk(v)


_walk(top)


class _Missing(types.ModuleType):
    def __getattr__(self, k):
        raise ModuleNotFoundError(k)


modules['cryptography.hazmat.backends.openssl.ec'] = None   # placeholder, handled below
del modules['cryptography.hazmat.backends.openssl.ec']
