"""Environment models (the trusted base, DESIGN §3).  Importing this package registers them with
the loader: struct, io, time, os, binascii, base64, logging/.logger, threading, socket, select,
cryptography.*, twisted.*"""
import types

from .. import loader
from . import struct_m, io_m, env_m, crypto_m, stubs_m, path_m, json_m, collections_m, urllib_m

loader.MODELS['struct'] = struct_m.module
loader.MODELS['io'] = io_m.module
loader.MODELS['time'] = env_m.time_module
loader.MODELS['os'] = env_m.os_module
loader.MODELS['random'] = env_m.random_module
loader.MODELS['binascii'] = env_m.binascii_module
loader.MODELS['base64'] = env_m.base64_module
loader.MODELS['json'] = json_m.module
loader.MODELS['select'] = stubs_m.select_module
loader.MODELS['socket'] = stubs_m.socket_module
loader.MODELS['threading'] = stubs_m.threading_module
loader.MODELS['logging'] = stubs_m.logging_module
loader.MODELS['logging.handlers'] = stubs_m.logging_module.handlers
loader.MODELS['signal'] = stubs_m.signal_module
loader.MODELS['collections'] = collections_m.module
loader.MODELS['urllib'] = urllib_m.top
loader.MODELS['urllib.parse'] = urllib_m.module
loader.MODELS['collections.abc'] = collections_m.module.abc
for _name, _mod in crypto_m.modules.items():
    loader.MODELS[_name] = _mod
for _name, _mod in stubs_m.twisted_modules.items():
    loader.MODELS[_name] = _mod
loader.REPLACED['logger'] = stubs_m.logger_module
