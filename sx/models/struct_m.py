"""Model of the ``struct`` module over ropes (big-endian/network formats, as used by /repo).

contract: CPython semantics for ``> ! =``-prefixed and native single-byte formats with the codes
B b H h L l I i Q q ? f d and Ns; out-of-range / non-integer arguments raise ``struct.error``;
buffers of the wrong size raise ``struct.error``.  ``f``/``d`` of symbolic floats are opaque
fields: unpack(pack(v)) returns the float32/float64 image of v.
"""
import re
import struct as _real
import types

import z3

from .. import core, rope
from ..core import SxInt, SxBool, SxReal, Unsupported

error = _real.error

_CODES = {
    'B': (1, False), 'b': (1, True), 'H': (2, False), 'h': (2, True),
    'L': (4, False), 'l': (4, True), 'I': (4, False), 'i': (4, True),
    'Q': (8, False), 'q': (8, True), '?': (1, False),
}

_cache = {}


def _parse(fmt):
    if isinstance(fmt, bytes):
        fmt = fmt.decode()
    if fmt in _cache:
        return _cache[fmt]
    f = fmt
    prefix = '@'
    if f and f[0] in '@=<>!':
        prefix = f[0]
        f = f[1:]
    items = []
    for m in re.finditer(r'\s*(\d*)([a-zA-Z?])', f):
        n, c = m.group(1), m.group(2)
        if c == 's':
            items.append(('s', int(n) if n else 1))
        elif c == 'x':
            items.append(('x', int(n) if n else 1))
        elif c in 'fd':
            for _ in range(int(n) if n else 1):
                items.append((c, 4 if c == 'f' else 8))
        elif c in _CODES:
            for _ in range(int(n) if n else 1):
                items.append((c, _CODES[c][0]))
        else:
            raise Unsupported('struct format %r' % fmt)
    if prefix in '@<' and any(w > 1 and c not in 'sx' for c, w in items):
        raise Unsupported('native/little-endian multi-byte struct format %r' % fmt)
    _cache[fmt] = items
    return items


def calcsize(fmt):
    return sum(w for c, w in _parse(fmt))


class F32:
    """opaque float32 image of a symbolic float"""
    __slots__ = ('src',)

    def __init__(self, src):
        self.src = src


def _symbolic(x):
    return core.is_sym(x) or rope.isrope(x)


def pack(fmt, *args):
    items = _parse(fmt)
    vals = [it for it in items if it[0] != 'x']
    if len(vals) != len(args):
        raise error('pack expected %d items for packing (got %d)' % (len(vals), len(args)))
    if not any(_symbolic(a) or isinstance(a, (SxInt, FloatTok)) for a in args):
        return _real.pack(fmt, *args)
    out = []
    ai = 0
    for c, w in items:
        if c == 'x':
            out.append(('lit', b'\x00' * w))
            continue
        a = args[ai]
        ai += 1
        if c == 's':
            if not isinstance(a, rope.SxBytes):
                raise error("argument for 's' must be a bytes object")
            n = rope.sx_len(a)
            n = core.concrete(n, cap=64)
            ps = list(rope.pieces_of(a[:w]))
            out.extend(ps)
            if n < w:
                out.append(('lit', b'\x00' * (w - n)))
            continue
        if c in 'fd':
            if isinstance(a, FloatTok):
                if c == 'f' and not a.f32 and a.big is not None:
                    # a double outside the float32 range cannot be packed: OverflowError (not struct.error)
                    if bool(a.big):
                        raise OverflowError('float too large to pack with f format')
                out.append(('opq', a, w, c))
                continue
            if isinstance(a, (SxReal, SxInt)) and core.is_sym(a):
                raise Unsupported('struct pack of symbolic real')
            try:
                out.append(('lit', _real.pack('>' + c, a)))
            except TypeError as e:
                raise error(str(e))
            continue
        if c == '?':
            if isinstance(a, SxBool):
                out.append(('fld', z3.If(a.z, 1, 0), 1, False))
            elif isinstance(a, SxInt) and a.z is not None:
                out.append(('fld', z3.If(a.iterm() != 0, 1, 0), 1, False))
            else:
                out.append(('lit', b'\x01' if a else b'\x00'))
            continue
        signed = _CODES[c][1]
        lo = -(1 << (8 * w - 1)) if signed else 0
        hi = (1 << (8 * w - 1)) - 1 if signed else (1 << (8 * w)) - 1
        if isinstance(a, SxBool):
            a = SxInt(a)
        if isinstance(a, SxInt):
            if a.z is None:
                a = a.v
            else:
                if not bool(core.And(a >= lo, a <= hi)):
                    raise error("'%s' format requires %d <= number <= %d" % (c, lo, hi))
                out.append(('fld', a.iterm(), w, signed))
                continue
        if isinstance(a, float) or not isinstance(a, int):
            if hasattr(a, '__index__') and not isinstance(a, float):
                a = a.__index__()
            else:
                raise error('required argument is not an integer')
        if not (lo <= a <= hi):
            raise error("'%s' format requires %d <= number <= %d" % (c, lo, hi))
        out.append(('lit', int(a).to_bytes(w, 'big', signed=signed)))
    return rope.mk(out)


from ..floats import FloatTok  # noqa: E402


def _int_of(sub, w, signed):
    """integer value of a w-byte big-endian sub-rope"""
    ps = rope.pieces_of(sub)
    if len(ps) == 1 and ps[0][0] == 'lit':
        return int.from_bytes(ps[0][1], 'big', signed=signed)
    if len(ps) == 1 and ps[0][0] == 'fld' and ps[0][2] == w:
        t = ps[0][1]
        if ps[0][3] == signed:
            return SxInt.wrap(t, m=None if signed else (1 << (8 * w)) - 1)
        half = 1 << (8 * w - 1)
        full = 1 << (8 * w)
        if signed:      # stored unsigned, read signed
            return SxInt.wrap(z3.If(t >= half, t - full, t))
        return SxInt.wrap(z3.If(t < 0, t + full, t))
    # general case: combine bytes
    tot = z3.IntVal(0)
    for k in range(w):
        b = rope.byte_at(sub, k)
        tot = tot * 256 + core.int_term(b)
    if signed:
        half = 1 << (8 * w - 1)
        full = 1 << (8 * w)
        tot = z3.If(tot >= half, tot - full, tot)
    return SxInt.wrap(tot, m=None if signed else (1 << (8 * w)) - 1)


def unpack(fmt, data):
    if isinstance(data, (bytes, bytearray)) and not isinstance(data, rope.ByteArray):
        return _real.unpack(fmt, data)
    if isinstance(data, rope.ByteArray):
        data = data.to_rope()
        if isinstance(data, bytes):
            return _real.unpack(fmt, data)
    if not rope.isrope(data):
        raise TypeError("a bytes-like object is required, not '%s'" % type(data).__name__)
    items = _parse(fmt)
    size = sum(w for c, w in items)
    n = rope.sx_len(data)
    if bool(n != size):
        raise error('unpack requires a buffer of %d bytes' % size)
    out = []
    off = 0
    for c, w in items:
        sub = rope.slice_rope(data, off, off + w)
        off += w
        if c == 'x':
            continue
        if c == 's':
            out.append(sub)
            continue
        if c in 'fd':
            ps = rope.pieces_of(sub)
            if len(ps) == 1 and ps[0][0] == 'lit':
                out.append(_real.unpack('>' + c, ps[0][1])[0])
            elif len(ps) == 1 and ps[0][0] == 'opq' and ps[0][3] == c:
                tok = ps[0][1]
                out.append(FloatTok(tok.key, f32=tok.f32 or c == 'f', nan=tok.nan, big=tok.big))
            else:
                # arbitrary bytes reinterpreted as a float: an unconstrained float value
                e = core.E()
                out.append(FloatTok('raw%d' % next(e.fresh), f32=(c == 'f'), nan=core.symbool('rawnan')))
            continue
        if c == '?':
            v = _int_of(sub, 1, False)
            out.append(v != 0 if isinstance(v, SxInt) else bool(v))
            continue
        out.append(_int_of(sub, w, _CODES[c][1]))
    return tuple(out)


def pack_into(*a, **k):
    raise Unsupported('struct.pack_into')


def unpack_from(fmt, data, offset=0):
    size = calcsize(fmt)
    return unpack(fmt, data[offset:offset + size])


module = types.ModuleType('struct')
module.pack = pack
module.unpack = unpack
module.calcsize = calcsize
module.error = error
module.unpack_from = unpack_from
module.pack_into = pack_into
module.Struct = _real.Struct
