"""urllib.parse: the real module, with an unquote() that understands text ropes.

unquote(t) for a rope t is decided piecewise.  Literal pieces go through the real function.  A symbolic piece s
(an arbitrary string) is split by the solver at its first '%':  s = a ++ '%' ++ r with no '%' in a; the engine decides
whether r starts with two hexadecimal digits (then the escape decodes to the character chr(16*h1+h2), which is
concretised when it is one of '/', '\\', '.', and kept symbolic otherwise) or not (then the '%' stays).  Bounds, stated in
the evidence: at most ESCAPES_PER_PATH escapes are followed per execution path and escapes that decode to a byte >= 0x80
(multi-byte utf-8) are not modelled; beyond them the path is Unsupported (inconclusive), never "held"."""
import types
import urllib.parse as _up

import z3

from .. import core, text
from ..core import E, Unsupported, mkbool

ESCAPES_PER_PATH = 2
_HEX = z3.Union(z3.Range('0', '9'), z3.Range('a', 'f'), z3.Range('A', 'F'))


def _val(ch):
    c = z3.StrToCode(ch)
    return z3.If(c <= 57, c - 48, z3.If(c <= 70, c - 55, c - 87))


def _sym(t, like, nonempty=False):
    return ('sym', t, dict(nosep=like[2].get('nosep', ''), nonempty=nonempty))


def _unquote_sym(p):
    e = E()
    t = p[1]
    if not bool(mkbool(z3.Contains(t, z3.StringVal('%')))):
        return [p]
    used = e.tags.get('unquote_escapes', 0)
    if used >= ESCAPES_PER_PATH:
        raise Unsupported('more than %d percent signs followed on one path (bound of the unquote model)' % ESCAPES_PER_PATH)
    e.tags['unquote_escapes'] = used + 1
    n = next(e.fresh)
    a = z3.String('uq_a!%d' % n)
    r = z3.String('uq_r!%d' % n)
    e.add(t == z3.Concat(a, z3.StringVal('%'), r))
    e.add(z3.Not(z3.Contains(a, z3.StringVal('%'))))
    h1, h2 = z3.SubString(r, 0, 1), z3.SubString(r, 1, 1)
    valid = z3.And(z3.Length(r) >= 2, z3.InRe(h1, _HEX), z3.InRe(h2, _HEX))
    if not bool(mkbool(valid)):
        return [_sym(a, p), ('lit', '%')] + _unquote_sym(_sym(r, p))
    code = 16 * _val(h1) + _val(h2)
    if not bool(mkbool(code < 128)):
        raise Unsupported('percent escape that decodes to a non-ASCII byte (outside the unquote model)')
    ch = z3.String('uq_c!%d' % n)
    rest = z3.String('uq_t!%d' % n)
    e.add(ch == z3.StrFromCode(code))
    e.add(rest == z3.SubString(r, 2, z3.Length(r) - 2))
    piece = None
    for lit in ('/', '\\', '.'):
        if bool(mkbool(ch == z3.StringVal(lit))):
            piece = ('lit', lit)
            break
    if piece is None:
        piece = ('sym', ch, dict(nosep='/\\', nonempty=True))
    return [_sym(a, p), piece] + _unquote_sym(_sym(rest, p))


def unquote(string, encoding='utf-8', errors='replace'):
    if not text.istext(string):
        return _up.unquote(string, encoding, errors)
    ps = list(text.pieces_of(string))
    out = []
    for i, p in enumerate(ps):
        nxt = ps[i + 1] if i + 1 < len(ps) else None
        if p[0] == 'lit':
            if '%' in p[1][-2:] and nxt is not None and not nxt[2].get('sepchar'):
                raise Unsupported('percent escape across a rope piece boundary')
            out.append(('lit', _up.unquote(p[1], encoding, errors)))
        elif p[2].get('sepchar'):
            out.append(p)
        else:
            if nxt is not None and not (nxt[0] == 'sym' and nxt[2].get('sepchar')) and not (nxt[0] == 'lit' and nxt[1][0] in '/\\'):
                raise Unsupported('percent escape possibly across a rope piece boundary')
            out.extend(_unquote_sym(p))
    return text.mk(out)


module = types.ModuleType('urllib.parse')
for _n in dir(_up):
    if not _n.startswith('__'):
        setattr(module, _n, getattr(_up, _n))
module.unquote = unquote
top = types.ModuleType('urllib')
top.parse = module
