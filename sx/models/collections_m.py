"""collections: the real module, except that OrderedDict is an insertion-ordered SxDict (key lookup decided by the
solver when a key is symbolic), so that caches and tables keyed by symbolic values can be executed."""
import collections as _c
import types

from ..values import SxDict


class OrderedDict(SxDict):
    """SxDict already keeps insertion order; adds the OrderedDict-only methods"""

    def move_to_end(self, key, last=True):
        i = self._find(key)
        if i < 0:
            raise KeyError(key)
        k = self._k.pop(i)
        v = self._v.pop(i)
        if last:
            self._k.append(k)
            self._v.append(v)
        else:
            self._k.insert(0, k)
            self._v.insert(0, v)
        self._reindex()

    def popitem(self, last=True):
        if not self._k:
            raise KeyError('dictionary is empty')
        i = len(self._k) - 1 if last else 0
        k = self._k.pop(i)
        v = self._v.pop(i)
        self._reindex()
        return k, v


module = types.ModuleType('collections')
for _n in dir(_c):
    if not _n.startswith('__'):
        setattr(module, _n, getattr(_c, _n))
module.abc = _c.abc
module.OrderedDict = OrderedDict
