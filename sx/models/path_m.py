"""os.path model: CPython's own pure-Python posixpath source (normpath fallback included),
read from the stdlib at run time and executed by sx on text ropes.  cwd is harness-settable."""
import ast
import builtins
import os as _os
import sys
import types

from .. import core, loader, text, values
from . import env_m

_SRC = _os.path.join(_os.path.dirname(_os.__file__), 'posixpath.py')


def _fspath(p):
    if text.istext(p):
        return p
    return _os.fspath(p)


def getcwd():
    e = core.Engine.cur
    if e is not None and 'cwd' in e.tags:
        return e.tags['cwd']
    return _os.getcwd()


def set_cwd(c):
    core.E().tags['cwd'] = c


env_m.os_module.fspath = _fspath
env_m.os_module.getcwd = getcwd


def _imp(name, globals=None, locals=None, fromlist=(), level=0):
    if name == 'posix':
        raise ImportError('pure-Python posixpath requested')
    if name == 'os':
        return env_m.os_module
    return builtins.__import__(name, globals, locals, fromlist, level)


def build():
    src = open(_SRC).read()
    tree = loader.Rewriter('posixpath').visit(ast.parse(src))
    ast.fix_missing_locations(tree)
    m = types.ModuleType('sxm_posixpath')
    g = m.__dict__
    bi = dict(vars(builtins))
    bi.update(values.SHIM_BUILTINS)
    bi['__import__'] = _imp
    g['__builtins__'] = bi
    g['__sx_mod__'] = values.sx_mod
    g['__sx_dict__'] = values.sx_dict_literal
    g['__sx_set__'] = values.sx_set_literal
    g['__sx_join__'] = values.sx_join
    g['__sx_type__'] = values.sx_type_call
    g['__sx_tick__'] = core.tick
    g['__sx_enter__'] = loader._enter
    exec(compile(tree, _SRC, 'exec'), g)
    return m


module = build()
env_m.os_module.path = module
