"""os.path model: CPython's own pure-Python posixpath source (normpath fallback included),
read from the stdlib at run time and executed by sx on text ropes.  cwd is harness-settable."""
import ast
import builtins
import os as _os
import sys
import types

from .. import core, loader, text, values
from . import env_m

_SRC = _os.path.join(_os.path.dirname(_os.__file__), 'posixpath.py')


def _fspath(p):
    if text.istext(p):
        return p
    return _os.fspath(p)


def getcwd():
    e = core.Engine.cur
    if e is not None and 'cwd' in e.tags:
        return e.tags['cwd']
    return _os.getcwd()


def set_cwd(c):
    core.E().tags['cwd'] = c


env_m.os_module.fspath = _fspath
env_m.os_module.getcwd = getcwd


def _imp(name, globals=None, locals=None, fromlist=(), level=0):
    if name == 'posix':
        raise ImportError('pure-Python posixpath requested')
    if name == 'os':
        return env_m.os_module
    return builtins.__import__(name, globals, locals, fromlist, level)


def build():
    src = open(_SRC).read()
    tree = loader.Rewriter('posixpath').visit(ast.parse(src))
    ast.fix_missing_locations(tree)
    m = types.ModuleType('sxm_posixpath')
    g = m.__dict__
    bi = dict(vars(builtins))
    bi.update(values.SHIM_BUILTINS)
    bi['__import__'] = _imp
    g['__builtins__'] = bi
    g['__sx_mod__'] = values.sx_mod
    g['__sx_dict__'] = values.sx_dict_literal
    g['__sx_set__'] = values.sx_set_literal
    g['__sx_join__'] = values.sx_join
    g['__sx_type__'] = values.sx_type_call
    g['__sx_tick__'] = core.tick
    g['__sx_enter__'] = loader._enter
    exec(compile(tree, _SRC, 'exec'), g)
    return m


module = build()
env_m.os_module.path = module
_real_commonprefix = module.commonprefix


def commonprefix(m):
    """genericpath.commonprefix on text ropes: the longest common *string* prefix r of the two texts, characterised for
    the solver: r is a prefix of both, and it is maximal (one of them ends there or the next characters differ)."""
    import z3
    m = list(m)
    if not any(text.istext(x) for x in m):
        return _real_commonprefix(m)
    if len(m) != 2:
        raise core.Unsupported('commonprefix of %d symbolic paths' % len(m))
    a, b = text.term_of(m[0]), text.term_of(m[1])
    e = core.E()
    r = z3.String('cpfx!%d' % next(e.fresh))
    n = z3.Length(r)
    e.add(z3.PrefixOf(r, a), z3.PrefixOf(r, b))
    e.add(z3.Or(n == z3.Length(a), n == z3.Length(b), z3.SubString(a, n, 1) != z3.SubString(b, n, 1)))
    return text.mk([('sym', r, dict(nosep='', nonempty=False))])


module.commonprefix = commonprefix
