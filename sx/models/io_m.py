"""Model of io.BytesIO over ropes: position / read(n) / write / tell / seek / getvalue.

contract: read(n) returns buf[pos:pos+n] (n None or negative: the rest; short read at EOF) and
advances pos by the number of bytes returned; write(b) at pos == len(buf) appends (writes in the
middle of the buffer are not modelled -> Unsupported); getvalue() is the whole buffer."""
import io as _real
import types

from .. import core, rope
from ..core import SxInt, Unsupported


class BytesIO:
    def __init__(self, initial=b''):
        if isinstance(initial, rope.ByteArray):
            initial = initial.to_rope()
        if not isinstance(initial, rope.SxBytes):
            if isinstance(initial, (bytearray, memoryview)):
                initial = bytes(initial)
            else:
                raise TypeError("a bytes-like object is required, not '%s'" % type(initial).__name__)
        self.buf = initial
        self.pos = 0
        self.closed = False
        self.reads = 0          # ghost: number of read calls
        self.max_read_req = 0   # ghost: largest n requested (concrete part)

    def _len(self):
        return rope.sx_len(self.buf)

    def read(self, n=-1):
        core.tick()
        self.reads += 1
        L = self._len()
        if n is None:
            end = L
        else:
            if isinstance(n, (SxInt, int)) or core.is_sym(n):
                neg = n < 0
                if bool(neg):
                    end = L
                elif bool(self.pos + n > L):      # short read at end of stream (a fork, not an ite)
                    end = L
                else:
                    end = self.pos + n
            else:
                raise TypeError('integer argument expected')
        out = rope.slice_rope(self.buf, self.pos, end)
        if bool(end > self.pos):
            self.pos = end
        return out

    def write(self, data):
        if isinstance(data, rope.ByteArray):
            data = data.to_rope()
        if not isinstance(data, rope.SxBytes):
            if isinstance(data, (bytearray, memoryview)):
                data = bytes(data)
            else:
                raise TypeError("a bytes-like object is required, not '%s'" % type(data).__name__)
        L = self._len()
        if not core.prove(self.pos == L):
            raise Unsupported('BytesIO.write not at end of buffer')
        self.buf = self.buf + data
        self.pos = rope.sx_len(self.buf)
        return rope.sx_len(data)

    def tell(self):
        return self.pos

    def seek(self, pos, whence=0):
        if whence == 0:
            if bool(pos < 0):
                raise ValueError('negative seek value %r' % (pos,))
            self.pos = pos
        elif whence == 1:
            self.pos = self.pos + pos
        else:
            self.pos = self._len() + pos
        return self.pos

    def getvalue(self):
        return self.buf

    def getbuffer(self):
        return MemView(self.buf)

    def close(self):
        self.closed = True

    def __enter__(self):
        return self

    def __exit__(self, *a):
        self.close()

    def remaining(self):
        return self._len() - self.pos


class MemView:
    """memoryview over the buffer of a BytesIO model: slicing with Python's slice semantics (negative and out-of-range
    bounds, symbolic bounds), len, tobytes, context manager; str(view, enc) / bytes(view) go through to_rope()"""

    def __init__(self, data):
        self.data = data

    def __enter__(self):
        return self

    def __exit__(self, *a):
        return False

    def release(self):
        pass

    def to_rope(self):
        return self.data

    def tobytes(self):
        return self.data

    def __sxlen__(self):
        return rope.sx_len(self.data)

    def __len__(self):
        return core.concrete(rope.sx_len(self.data))

    def __getitem__(self, k):
        if isinstance(k, slice):
            if k.step not in (None, 1):
                raise Unsupported('memoryview slice with a step')
            L = rope.sx_len(self.data)
            a, b = rope._norm_bounds(L, k.start, k.stop)
            return MemView(rope.slice_rope(self.data, a, b))
        return self.data[k]

    def decode(self, enc='utf-8', errors='strict'):
        d = self.data
        if isinstance(d, bytes):
            return d.decode(enc, errors)
        return d.decode(enc, errors)


module = types.ModuleType('io')
for _k in dir(_real):
    if not _k.startswith('__'):
        setattr(module, _k, getattr(_real, _k))
module.BytesIO = BytesIO
