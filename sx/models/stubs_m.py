"""Inert stand-ins: logging/.logger, threading, socket, select, signal, twisted."""
import types


def _mod(name, **attrs):
    m = types.ModuleType(name)
    for k, v in attrs.items():
        setattr(m, k, v)
    return m


# ------------------------------------------------------------------ logging
class NullLogger:
    def __init__(self, *a, **k):
        self.records = 0

    def _log(self, *a, **k):
        self.records += 1

    trace = debug = info = warning = error = exception = critical = log = _log

    def setLevel(self, *a):
        pass

    def addHandler(self, *a):
        pass

    def isEnabledFor(self, *a):
        return False


_LOG = NullLogger()


class PeerLogger(NullLogger):
    def __init__(self, addr=None):
        NullLogger.__init__(self)
        self.peer = ''


logging_module = _mod('logging', getLogger=lambda *a, **k: _LOG, Logger=NullLogger, INFO=20, DEBUG=10,
                      WARNING=30, ERROR=40, addLevelName=lambda *a: None, basicConfig=lambda *a, **k: None,
                      Formatter=lambda *a, **k: None, StreamHandler=lambda *a, **k: None)
logging_module.handlers = _mod('logging.handlers', RotatingFileHandler=lambda *a, **k: None)

logger_module = _mod('sxm.logger', LOGLEVEL_TRACE=9, PeerLogger=PeerLogger, mplogger=_LOG, log=_LOG,
                     setupLogger=lambda *a, **k: NullLogger(), basicConfig=lambda: None)


# ------------------------------------------------------------------ threading
class Thread:
    def __init__(self, *a, **k):
        self.daemon = False
        self._started = False

    def start(self):
        self._started = True

    def join(self, *a):
        pass

    def is_alive(self):
        return False


class Lock:
    def __enter__(self):
        return self

    def __exit__(self, *a):
        return False

    def acquire(self, *a, **k):
        return True

    def release(self):
        pass


class Condition(Lock):
    """wait() calls back into the harness (attribute ``on_wait``) so that a single-threaded
    driver can feed the next batch of queue entries or request shutdown"""
    on_wait = None

    def __init__(self, lock=None):
        self.lock = lock
        self.waits = 0
        self.notifies = 0

    def wait(self, timeout=None):
        self.waits += 1
        if Condition.on_wait is not None:
            # like the real thing: the lock is released while waiting (the hook may call append())
            if self.lock is not None:
                self.lock.release()
            try:
                Condition.on_wait(self)
            finally:
                if self.lock is not None:
                    self.lock.acquire()
        return True

    def notify_all(self):
        self.notifies += 1

    notify = notify_all


threading_module = _mod('threading', Thread=Thread, Lock=Lock, RLock=Lock, Condition=Condition,
                        current_thread=lambda: 'sx-thread', get_ident=lambda: 1)


# ------------------------------------------------------------------ socket / select
class Socket:
    def __init__(self, *a, **k):
        self.sent = []
        self.inbox = []
        self.closed = False

    def sendto(self, data, addr):
        self.sent.append((data, addr))
        return len(data) if isinstance(data, bytes) else 0

    def recvfrom(self, n):
        return self.inbox.pop(0)

    def setsockopt(self, *a):
        pass

    def bind(self, *a):
        pass

    def close(self):
        self.closed = True

    def fileno(self):
        return 3

    def setblocking(self, *a):
        pass


def _inet_pton(fam, host):
    import socket as _s
    return _s.inet_pton(fam, host)


import socket as _rs  # noqa: E402

socket_module = _mod('socket', socket=Socket, AF_INET=_rs.AF_INET, AF_INET6=_rs.AF_INET6, SOCK_DGRAM=_rs.SOCK_DGRAM,
                     SOL_SOCKET=_rs.SOL_SOCKET, SO_REUSEADDR=_rs.SO_REUSEADDR, error=_rs.error,
                     inet_pton=_inet_pton)


def _select(r, w, x, timeout=None):
    return ([s for s in r if getattr(s, 'inbox', None)], list(w), [])


select_module = _mod('select', select=_select)
signal_module = _mod('signal', signal=lambda *a: None, SIGABRT=6, SIGILL=4, SIGINT=2, SIGSEGV=11, SIGTERM=15)


# ------------------------------------------------------------------ twisted
class DatagramProtocol:
    transport = None


class _Reactor:
    def callFromThread(self, f, *a, **k):
        return f(*a, **k)

    def listenUDP(self, *a, **k):
        pass

    def listenTCP(self, *a, **k):
        pass

    def listenSSL(self, *a, **k):
        pass

    def run(self, *a, **k):
        pass

    def stop(self):
        pass


class _HttpRequest:
    def __init__(self, *a, **k):
        pass


class _HTTPChannel:
    def dataReceived(self, data):
        pass

    def requestDone(self, request):
        pass

    def connectionLost(self, reason):
        pass

    def loseConnection(self):
        pass


class _HTTPFactory:
    def __init__(self, *a, **k):
        pass


reactor = _Reactor()
tw_protocol = _mod('twisted.internet.protocol', DatagramProtocol=DatagramProtocol)
tw_ssl = _mod('twisted.internet.ssl')
tw_internet = _mod('twisted.internet', reactor=reactor, ssl=tw_ssl, protocol=tw_protocol)
tw_http = _mod('twisted.web.http', Request=_HttpRequest, HTTPChannel=_HTTPChannel, HTTPFactory=_HTTPFactory)
tw_web = _mod('twisted.web', http=tw_http)
tw_top = _mod('twisted', internet=tw_internet, web=tw_web)
twisted_modules = {
    'twisted': tw_top, 'twisted.internet': tw_internet, 'twisted.internet.protocol': tw_protocol,
    'twisted.internet.ssl': tw_ssl, 'twisted.internet.reactor': reactor, 'twisted.web': tw_web,
    'twisted.web.http': tw_http,
}
