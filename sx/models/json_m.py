"""json model: dumps validates that the object is plain JSON data and returns an opaque text token;
loads of that token returns the data as JSON would hand it back (dict keys stringified with
str(int) <-> int(str) inverse, tuples as lists).  Concrete inputs use the real module."""
import json as _json
import types

from .. import core, rope, text
from ..core import SxInt, SxBool, SxReal, Unsupported
from ..floats import FloatTok
from ..values import SxDict, SxSet


class IntStr:
    """the decimal rendering of a (symbolic) int used as a JSON object key"""

    def __init__(self, v):
        self.v = v

    def __sx_int__(self):
        return self.v

    def __sx_symbolic__(self):
        return core.is_sym(self.v)

    def __eq__(self, o):
        if isinstance(o, IntStr):
            return self.v == o.v
        return False

    def __hash__(self):
        return hash(('IntStr', self.v))

    def upper(self):
        return self

    def __repr__(self):
        return 'IntStr(%r)' % (self.v,)


class JsonText:
    def __init__(self, data):
        self.data = data


def _sym(o):
    if core.is_sym(o) or text.istext(o) or rope.isrope(o) or isinstance(o, (FloatTok, SxDict, SxSet, IntStr)):
        return True
    if isinstance(o, (list, tuple)):
        return any(_sym(x) for x in o)
    if isinstance(o, dict):
        return any(_sym(k) or _sym(v) for k, v in o.items())
    return False


def _plain(o):
    """JSON image of o, or TypeError exactly where json.dumps raises"""
    if o is None or isinstance(o, (bool, SxBool, str, FloatTok, float, SxReal)) or text.istext(o):
        return o
    if isinstance(o, (int, SxInt)):
        if type(o) not in (int, SxInt, bool):
            return SxInt(o)
        return o
    if isinstance(o, (list, tuple)):
        return [_plain(x) for x in o]
    if isinstance(o, (dict, SxDict)):
        out = SxDict()
        for k, v in o.items():
            if isinstance(k, (str,)) or text.istext(k):
                kk = k
            elif isinstance(k, (bool, SxBool)):
                raise Unsupported('bool JSON key')
            elif isinstance(k, (int, SxInt)):
                kk = IntStr(k) if core.is_sym(k) else str(int(k))
            elif k is None:
                kk = 'null'
            elif isinstance(k, (float, FloatTok)):
                raise Unsupported('float JSON key')
            else:
                raise TypeError('keys must be str, int, float, bool or None, not %s' % type(k).__name__)
            out[kk] = _plain(v)
        return out
    raise TypeError('Object of type %s is not JSON serializable' % type(o).__name__)


def dumps(obj, *a, **k):
    if not _sym(obj):
        return _json.dumps(obj, *a, **k)
    return JsonText(_plain(obj))


def loads(s, *a, **k):
    if isinstance(s, JsonText):
        return s.data
    return _json.loads(s, *a, **k)


module = types.ModuleType('json')
for _k in dir(_json):
    if not _k.startswith('__'):
        setattr(module, _k, getattr(_json, _k))
module.dumps = dumps
module.loads = loads
