"""Clock, os.urandom, random, binascii.crc32, base64 models."""
import base64 as _b64
import binascii as _binascii
import os as _os
import random as _random
import time as _time
import types

import z3

from .. import core, rope
from ..core import SxInt, SxReal, Unsupported, E


# ------------------------------------------------------------------ clock
class Clock:
    """one harness clock: arbitrary non-decreasing reals >= 0.
    fresh=False: reading does not advance time (the harness advances it explicitly)
    fresh=True : every reading returns an arbitrary instant >= the previous reading"""

    def __init__(self, start=None, fresh=False, name='t'):
        self.name = name
        self.fresh = fresh
        self.now = start if start is not None else core.symreal(name + '0', lo=0)
        self.readings = 0

    def __call__(self):
        self.readings += 1
        if self.fresh and self.readings > 1:
            self.now = core.symreal('%s%d' % (self.name, self.readings), lo=self.now)
        return self.now

    def advance(self, dt=None):
        if dt is None:
            self.now = core.symreal('%s_adv%d' % (self.name, self.readings), lo=self.now)
            self.readings += 1
        else:
            self.now = self.now + dt
        return self.now

    def set(self, t):
        self.now = t


def clock():
    e = core.Engine.cur
    if e is None:
        return _RealClock()
    c = e.tags.get('clock')
    if c is None:
        c = e.tags['clock'] = Clock()
    return c


class _RealClock:
    def __call__(self):
        return _time.time()


def set_clock(c):
    E().tags['clock'] = c
    return c


def _now():
    return clock()()


time_module = types.ModuleType('time')
time_module.time = _now
time_module.monotonic = _now
time_module.perf_counter = _now
time_module.sleep = lambda *a: None
time_module.strftime = _time.strftime
time_module.gmtime = _time.gmtime
time_module.localtime = _time.localtime

# ------------------------------------------------------------------ os


def urandom(n):
    e = core.Engine.cur
    if e is None or getattr(e, 'replay', False):
        return _os.urandom(n)
    if bool(n < 0):
        raise ValueError('negative argument not allowed')
    k = e.tags['urandom'] = e.tags.get('urandom', 0) + 1
    name = 'urandom%d' % k
    b = rope.Blob(name, rope._zi(n))
    if isinstance(n, int) and n <= 8:
        # declare the bytes as inputs so that counterexamples carry the RNG outcome
        for i in range(n):
            core.declare_input('%s[%d]' % (name, i), b.byte(z3.IntVal(i)))
    e.tags.setdefault('urandom_blobs', []).append(b)
    return rope.mk([('view', b, z3.IntVal(0), rope._zi(n))])


os_module = types.ModuleType('os')
for _k in dir(_os):
    if not _k.startswith('__'):
        setattr(os_module, _k, getattr(_os, _k))
os_module.urandom = urandom

random_module = types.ModuleType('random')
for _k in dir(_random):
    if not _k.startswith('__'):
        setattr(random_module, _k, getattr(_random, _k))

# ------------------------------------------------------------------ binascii / crc32


def crc32(data, value=0):
    if isinstance(data, (bytes, bytearray)):
        return _binascii.crc32(data, value)
    e = E()
    cache = e.tags.setdefault('crc', {})
    key = rope.rope_key(data)
    if key not in cache:
        v = e.newvar('crc', z3.IntSort())
        e.add(v >= 0, v < 2 ** 32)
        cache[key] = v
    return SxInt.wrap(cache[key])


binascii_module = types.ModuleType('binascii')
for _k in dir(_binascii):
    if not _k.startswith('__'):
        setattr(binascii_module, _k, getattr(_binascii, _k))
binascii_module.crc32 = crc32

# ------------------------------------------------------------------ base64

B64_EXCLUDES = b':/\\ \n'   # characters never produced by b64encode that the code splits on (':')


def b64encode(x):
    if isinstance(x, (bytes, bytearray)):
        return _b64.b64encode(x)
    e = E()
    k = e.tags['b64'] = e.tags.get('b64', 0) + 1
    n = rope.sx_len(x)
    # 4*ceil(n/3)
    ln = 4 * ((n + 2) // 3)
    b = rope.Blob('b64_%d' % k, rope._zi(ln), meta={'excludes': b':', 'b64_of': x})
    return rope.mk([('view', b, z3.IntVal(0), rope._zi(ln))])


def b64decode(y, *a, **k):
    if isinstance(y, (bytes, bytearray, str)):
        return _b64.b64decode(y, *a, **k)
    b = rope.full_view_blob(y) if rope.isrope(y) else None
    if b is not None and 'b64_of' in b.meta:
        return b.meta['b64_of']
    # arbitrary text: raises binascii.Error (a ValueError) or returns arbitrary bytes
    e = E()
    if core.choose(2, 'b64decode_fails'):
        raise _binascii.Error('Incorrect padding')
    kk = e.tags['b64d'] = e.tags.get('b64d', 0) + 1
    out, _ = rope.blob('b64dec%d' % kk, 0, None)
    bl = rope.pieces_of(out)[0][1]
    for i in range(8):
        core.declare_input('b64dec%d[%d]' % (kk, i), bl.byte(z3.IntVal(i)))
    e.tags.setdefault('b64dec_ropes', []).append(out)
    return out


base64_module = types.ModuleType('base64')
for _k in dir(_b64):
    if not _k.startswith('__'):
        setattr(base64_module, _k, getattr(_b64, _k))
base64_module.b64encode = b64encode
base64_module.b64decode = b64decode
