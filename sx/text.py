"""Text ropes (symbolic str).

pieces
  ('lit', str)
  ('sym', term, flags)   term: z3 String expression; flags: dict(nosep=str of chars the piece cannot
                         contain, nonempty=bool, sepchar=bool (a single character that is '/' or '\\'))
Operations keep the piece structure where they can (split / replace / slicing at small concrete
offsets / prefix tests) and fall back to z3's string theory for predicates.
"""
import builtins

import z3

from . import core, rope
from .core import SxInt, SxBool, Unsupported, E, mkbool, tobool

_str = builtins.str
_isinstance = builtins.isinstance
_len = builtins.len


class StrShim(type):
    def __instancecheck__(cls, x):
        return _isinstance(x, _str) or type(x) is Text


class SxStr(metaclass=StrShim):
    """the name ``str`` inside instrumented modules"""

    def __new__(cls, x='', *a, **k):
        if type(x) is Text:
            return x
        if (a or k) and hasattr(x, 'to_rope'):           # str(memoryview / bytearray model, encoding)
            x = x.to_rope()
        if (a or k) and rope.isrope(x):                  # str(b, 'utf-8') decodes
            return decode(x, *a[:1])
        if core.is_sym(x) or rope.isrope(x):
            return '<sym>'
        return _str(x, *a, **k)

    @staticmethod
    def maketrans(*a):
        return _str.maketrans(*a)


SxStr.__name__ = 'str'
SxStr.__qualname__ = 'str'


def _norm(pieces):
    out = []
    for p in pieces:
        if p[0] == 'lit':
            if not p[1]:
                continue
            if out and out[-1][0] == 'lit':
                out[-1] = ('lit', out[-1][1] + p[1])
                continue
        else:
            t = z3.simplify(p[1])
            if z3.is_string_value(t):
                s = t.as_string()
                if out and out[-1][0] == 'lit':
                    out[-1] = ('lit', out[-1][1] + s)
                elif s:
                    out.append(('lit', s))
                continue
            p = ('sym', t, p[2])
        out.append(p)
    return out


def mk(pieces):
    ps = _norm(pieces)
    if not ps:
        return ''
    if _len(ps) == 1 and ps[0][0] == 'lit':
        return ps[0][1]
    t = object.__new__(Text)
    t.p = tuple(ps)
    return t


def pieces_of(x):
    if type(x) is Text:
        return x.p
    if _isinstance(x, _str):
        return (('lit', x),) if x else ()
    raise TypeError('expected str instance, %s found' % type(x).__name__)


def istext(x):
    return type(x) is Text


def term_of(x):
    ps = pieces_of(x)
    ts = [z3.StringVal(p[1]) if p[0] == 'lit' else p[1] for p in ps]
    if not ts:
        return z3.StringVal('')
    if _len(ts) == 1:
        return ts[0]
    return z3.Concat(*ts)


def _plen(p):
    if p[0] == 'lit':
        return _len(p[1])
    if p[2].get('sepchar'):
        return 1
    if p[2].get('len') is not None:
        return SxInt.wrap(p[2]['len'])
    return SxInt.wrap(z3.Length(p[1]))


def sx_len(x):
    if type(x) is Text:
        tot = 0
        for p in x.p:
            tot = tot + _plen(p)
        return tot
    return _len(x)


def _same_sym(a, b):
    return a[0] == 'sym' and b[0] == 'sym' and a[1].eq(b[1])


def text_eq(x, y):
    px, py = list(pieces_of(x)), list(pieces_of(y))
    if not px and not py:
        return True
    # structural fast paths
    if _len(px) == _len(py) and all((a[0] == 'lit' and b[0] == 'lit' and a[1] == b[1]) or _same_sym(a, b)
                                    for a, b in zip(px, py)):
        return True
    if not px or not py:
        other = px or py
        # == '' : every piece empty
        for p in other:
            if p[0] == 'lit' or p[2].get('nonempty') or p[2].get('sepchar'):
                return False
        return core.And(*[_plen(p) == 0 for p in other])
    # a literal against a single symbolic piece that cannot contain one of its characters
    for a, b in ((px, py), (py, px)):
        if _len(a) == 1 and a[0][0] == 'lit' and _len(b) == 1 and b[0][0] == 'sym':
            excl = b[0][2].get('nosep', '')
            if any(ch in excl for ch in a[0][1]):
                return False
            if b[0][2].get('sepchar') and a[0][1] not in ('/', '\\'):
                return False
    # strip common literal prefix / suffix and identical leading pieces
    while px and py:
        a, b = px[0], py[0]
        if a[0] == 'lit' and b[0] == 'lit':
            n = min(_len(a[1]), _len(b[1]))
            if a[1][:n] != b[1][:n]:
                return False
            px[0] = ('lit', a[1][n:])
            py[0] = ('lit', b[1][n:])
            if not px[0][1]:
                px.pop(0)
            if not py[0][1]:
                py.pop(0)
            continue
        if _same_sym(a, b):
            px.pop(0)
            py.pop(0)
            continue
        break
    if not px and not py:
        return True
    rx_, ry_ = mk(px), mk(py)
    lx, ly = sx_len(rx_), sx_len(ry_)
    # lengths kept as plain Int variables are not tied to the string terms: state the link here
    return core.Or(core.And(lx == 0, ly == 0), core.And(lx == ly, mkbool(term_of(rx_) == term_of(ry_))))


class Text:
    __slots__ = ('p',)

    def __init__(self, *a):
        raise TypeError('use text.mk')

    def __sxlen__(self):
        return sx_len(self)

    def __len__(self):
        return core.concrete(sx_len(self))

    def __sx_symbolic__(self):
        return True

    def __hash__(self):
        raise Unsupported('hash of symbolic str')

    def __bool__(self):
        for p in self.p:
            if p[0] == 'lit' or p[2].get('nonempty') or p[2].get('sepchar'):
                return True
        return bool(sx_len(self) > 0)

    def __repr__(self):
        return 'Text<' + ' + '.join(repr(p[1]) if p[0] == 'lit' else _str(p[1])[:40] for p in self.p) + '>'

    def __str__(self):
        return '<symbolic str>'

    def __format__(self, spec):
        return '<symbolic str>'

    def __add__(self, o):
        try:
            return mk(self.p + tuple(pieces_of(o)))
        except TypeError:
            return NotImplemented

    def __radd__(self, o):
        try:
            return mk(tuple(pieces_of(o)) + self.p)
        except TypeError:
            return NotImplemented

    def __eq__(self, o):
        if not (_isinstance(o, _str) or type(o) is Text):
            return False
        return text_eq(self, o)

    def __ne__(self, o):
        return core.Not(self.__eq__(o))

    def __contains__(self, sub):
        if _isinstance(sub, _str) and _len(sub) == 1:
            # single character: decide structurally where possible
            conds = []
            for p in self.p:
                if p[0] == 'lit':
                    if sub in p[1]:
                        return True
                elif p[2].get('sepchar'):
                    if sub in ('/', '\\'):
                        conds.append(mkbool(p[1] == z3.StringVal(sub)))
                elif sub in p[2].get('nosep', ''):
                    continue
                else:
                    conds.append(mkbool(z3.Contains(p[1], z3.StringVal(sub))))
            return bool(core.Or(*conds)) if conds else False
        return bool(mkbool(z3.Contains(term_of(self), term_of(sub))))

    def __getitem__(self, ix):
        if _isinstance(ix, slice):
            if ix.step not in (None, 1):
                raise Unsupported('text slice with step')
            return slice_text(self, ix.start, ix.stop)
        r = slice_text(self, ix, ix + 1)
        if not bool(sx_len(r) == 1):
            raise IndexError('string index out of range')
        return r

    def replace(self, old, new, count=-1):
        if count != -1 or not _isinstance(old, _str) or not _isinstance(new, _str) or _len(old) != 1:
            raise Unsupported('text.replace form')
        out = []
        for p in self.p:
            if p[0] == 'lit':
                out.append(('lit', p[1].replace(old, new)))
            elif p[2].get('sepchar'):
                if old == '\\' and new == '/':
                    out.append(('lit', '/'))
                elif old == '/' and new == '\\':
                    out.append(('lit', '\\'))
                elif old in ('/', '\\'):
                    raise Unsupported('replace of a separator character by %r' % new)
                else:
                    out.append(p)
            elif old in p[2].get('nosep', ''):
                out.append(p)
            else:
                raise Unsupported('replace inside an unconstrained symbolic piece')
        return mk(out)

    def split(self, sep=None, maxsplit=-1):
        if not _isinstance(sep, _str) or _len(sep) != 1 or maxsplit != -1:
            raise Unsupported('text.split form')
        parts = []
        cur = []
        for p in self.p:
            if p[0] == 'lit':
                chunks = p[1].split(sep)
                for ci, c in enumerate(chunks):
                    if ci > 0:
                        parts.append(mk(cur))
                        cur = []
                    if c:
                        cur.append(('lit', c))
            elif p[2].get('sepchar'):
                if sep in ('/', '\\'):
                    # a character that is '/' or '\\': decide which (fork); it either separates or is ordinary text
                    if bool(mkbool(p[1] == z3.StringVal(sep))):
                        parts.append(mk(cur))
                        cur = []
                    else:
                        cur.append(('lit', '\\' if sep == '/' else '/'))
                else:
                    cur.append(p)
            elif sep in p[2].get('nosep', ''):
                cur.append(p)
            else:
                raise Unsupported('split: symbolic piece may contain the separator')
        parts.append(mk(cur))
        return parts

    def startswith(self, prefix):
        if _isinstance(prefix, tuple):
            return bool(core.Or(*[starts(self, p) for p in prefix]))
        return starts(self, prefix)

    def endswith(self, suffix):
        return ends(self, suffix)

    def encode(self, enc='utf-8', errors='strict'):
        return encode(self, enc)

    def upper(self):
        return _map1(self, 'upper')

    def lower(self):
        return _map1(self, 'lower')

    def lstrip(self, chars=None):
        """str.lstrip(chars) for a literal character set.  Literal pieces are stripped directly; a leading symbolic
        piece s is split by the solver: s = p ++ r with p made of characters of the set only and r not starting with one
        (r may be empty only if nothing but stripped text follows; then stripping continues with the next piece)."""
        if not _isinstance(chars, _str) or not chars:
            raise Unsupported('lstrip form')
        ps = list(self.p)
        while ps:
            p = ps[0]
            if p[0] == 'lit':
                st = p[1].lstrip(chars)
                if st:
                    ps[0] = ('lit', st)
                    break
                ps.pop(0)
                continue
            if p[2].get('nonempty') and all(ch in p[2].get('nosep', '') for ch in chars):
                break
            if p[2].get('sepchar'):
                if any(ch in '/\\' for ch in chars):
                    raise Unsupported('lstrip of separator characters over a symbolic separator')
                break
            e = E()
            cls = None
            for ch in chars:
                c = z3.Re(z3.StringVal(ch))
                cls = c if cls is None else z3.Union(cls, c)
            n = next(e.fresh)
            pre = z3.String('ls_p!%d' % n)
            rest = z3.String('ls_r!%d' % n)
            e.add(p[1] == z3.Concat(pre, rest))
            e.add(z3.InRe(pre, z3.Star(cls)))
            e.add(z3.Or(z3.Length(rest) == 0, z3.Not(z3.InRe(z3.SubString(rest, 0, 1), cls))))
            if bool(mkbool(z3.Length(rest) == 0)):
                ps.pop(0)                      # the whole piece was stripped: go on with the next one
                continue
            ps[0] = ('sym', rest, dict(nosep=p[2].get('nosep', ''), nonempty=True))
            break
        return mk(ps)

    def __getattr__(self, name):
        if hasattr(_str, name):
            raise Unsupported('str method %r on symbolic str' % name)
        raise AttributeError("'str' object has no attribute %r" % name)

    def __fspath__(self):
        raise Unsupported('fspath of symbolic str')


def _map1(t, how):
    raise Unsupported('str.%s on symbolic str' % how)


def starts(x, prefix):
    """x.startswith(prefix) -> bool / SxBool (no fork)"""
    px, pp = list(pieces_of(x)), list(pieces_of(prefix))
    while pp:
        if not px:
            # prefix must be empty
            return text_eq(mk(pp), '')
        a, b = px[0], pp[0]
        if a[0] == 'lit' and b[0] == 'lit':
            n = min(_len(a[1]), _len(b[1]))
            if a[1][:n] != b[1][:n]:
                return False
            ra, rb = a[1][n:], b[1][n:]
            if ra:
                px[0] = ('lit', ra)
            else:
                px.pop(0)
            if rb:
                pp[0] = ('lit', rb)
            else:
                pp.pop(0)
            continue
        if _same_sym(a, b):
            px.pop(0)
            pp.pop(0)
            continue
        # a literal character the symbolic head cannot contain
        if a[0] == 'sym' and b[0] == 'lit' and a[2].get('nonempty') and b[1][0] in a[2].get('nosep', ''):
            return False
        if a[0] == 'lit' and b[0] == 'sym' and b[2].get('nonempty') and a[1][0] in b[2].get('nosep', ''):
            return False
        return mkbool(z3.PrefixOf(term_of(mk(pp)), term_of(mk(px))))
    return True


def ends(x, suffix):
    px, pp = list(pieces_of(x)), list(pieces_of(suffix))
    while pp:
        if not px:
            return text_eq(mk(pp), '')
        a, b = px[-1], pp[-1]
        if a[0] == 'lit' and b[0] == 'lit':
            n = min(_len(a[1]), _len(b[1]))
            if a[1][_len(a[1]) - n:] != b[1][_len(b[1]) - n:]:
                return False
            ra, rb = a[1][:_len(a[1]) - n], b[1][:_len(b[1]) - n]
            if ra:
                px[-1] = ('lit', ra)
            else:
                px.pop()
            if rb:
                pp[-1] = ('lit', rb)
            else:
                pp.pop()
            continue
        if _same_sym(a, b):
            px.pop()
            pp.pop()
            continue
        if a[0] == 'sym' and b[0] == 'lit' and a[2].get('nonempty') and b[1][-1] in a[2].get('nosep', ''):
            return False
        if a[0] == 'lit' and b[0] == 'sym' and b[2].get('nonempty') and a[1][-1] in b[2].get('nosep', ''):
            return False
        return mkbool(z3.SuffixOf(term_of(mk(pp)), term_of(mk(px))))
    return True


def _cut(pieces, k):
    """split a piece list at concrete offset k -> (left, right); forks on symbolic piece lengths"""
    left = []
    ps = list(pieces)
    rem = k
    while ps:
        if _isinstance(rem, builtins.int) and rem <= 0:
            break
        p = ps[0]
        if p[0] == 'lit':
            n = _len(p[1])
            r = core.concrete(core.ite(rem > n, n, rem)) if not _isinstance(rem, builtins.int) else min(rem, n)
            left.append(('lit', p[1][:r]))
            if r < n:
                ps[0] = ('lit', p[1][r:])
                rem = 0
                break
            ps.pop(0)
            rem = rem - r
            continue
        L = _plen(p)
        if _isinstance(L, builtins.int):
            # a single symbolic character
            left.append(p)
            ps.pop(0)
            rem = rem - L
            continue
        if bool(L <= rem):
            left.append(p)
            ps.pop(0)
            rem = rem - L
            if not _isinstance(rem, builtins.int):
                rem = core.concrete(rem, cap=16)
            continue
        # cut inside the symbolic piece
        r = rem if _isinstance(rem, builtins.int) else core.concrete(rem, cap=16)
        fl = dict(p[2])
        a = ('sym', z3.SubString(p[1], 0, r), dict(nosep=fl.get('nosep', ''), nonempty=r > 0))
        b = ('sym', z3.SubString(p[1], r, z3.Length(p[1]) - r), dict(nosep=fl.get('nosep', ''), nonempty=True))
        left.append(a)
        ps[0] = b
        rem = 0
        break
    return left, ps


def slice_text(x, a, b):
    if a is None:
        a = 0
    if core.is_sym(a) or (b is not None and core.is_sym(b)):
        raise Unsupported('text slice at a symbolic offset')
    a = builtins.int(a)
    if a < 0 or (b is not None and builtins.int(b) < 0):
        raise Unsupported('negative text slice bound')
    ps = list(pieces_of(x))
    _, rest = _cut(ps, a)
    if b is None:
        return mk(rest)
    b = builtins.int(b)
    if b <= a:
        return ''
    mid, _ = _cut(rest, b - a)
    return mk(mid)


def join(sep, items):
    items = list(items)
    if _isinstance(sep, _str) and all(_isinstance(x, _str) for x in items):
        return sep.join(items)
    out = []
    sp = tuple(pieces_of(sep))
    for k, it in enumerate(items):
        if k:
            out.extend(sp)
        out.extend(pieces_of(it))
    return mk(out)


def atom(name, nosep='/\\', nonempty=True, declare=True):
    """fresh symbolic string that contains none of the characters in nosep"""
    r = core._rp()
    if r is not None:
        r.inputs[name] = True
        v = r.model.get(name)
        return v if _isinstance(v, _str) else ('x' if nonempty else '')
    e = E()
    t = z3.String('%s!%d' % (name, next(e.fresh)))
    if declare:
        e.inputs[name] = t
    if nosep:
        cls = None
        for ch in nosep:
            c = z3.Re(z3.StringVal(ch))
            cls = c if cls is None else z3.Union(cls, c)
        allowed = z3.Intersect(z3.AllChar(z3.ReSort(z3.StringSort())), z3.Complement(cls))
        e.add(z3.InRe(t, z3.Plus(allowed) if nonempty else z3.Star(allowed)))
    elif nonempty:
        e.add(z3.Length(t) >= 1)
    return mk([('sym', t, dict(nosep=nosep, nonempty=nonempty))])


def opaque(name):
    """fresh text of arbitrary content whose length is a plain Int variable (no sequence reasoning:
    for code that only moves the text around, measures and encodes it)"""
    r = core._rp()
    if r is not None:
        r.inputs[name + '_chars'] = True
        n = r.model.get(name + '_chars')
        n = builtins.int(n) if _isinstance(n, builtins.int) else 0
        return 'a' * max(0, min(n, 1 << 20))
    e = E()
    t = z3.String('%s!%d' % (name, next(e.fresh)))
    n = e.newvar(name + '_chars', z3.IntSort())
    e.inputs[name + '_chars'] = n
    e.add(n >= 0)
    return mk([('sym', t, dict(nosep='', nonempty=False, len=n))])


def sepchar(name):
    """a single character that is '/' or '\\' (no fork)"""
    r = core._rp()
    if r is not None:
        r.inputs[name] = True
        v = r.model.get(name)
        return v if v in ('/', '\\') else '/'
    e = E()
    t = z3.String('%s!%d' % (name, next(e.fresh)))
    e.inputs[name] = t
    e.add(z3.Or(t == z3.StringVal('/'), t == z3.StringVal('\\')))
    return mk([('sym', t, dict(sepchar=True, nonempty=True, nosep=''))])


# ------------------------------------------------------------------ utf-8 encode / decode (opaque)

def encode(t, enc='utf-8'):
    """utf-8 image: one opaque blob per symbolic piece (same piece -> same blob)"""
    e = E()
    cache = e.tags.setdefault('utf8', {})
    out = []
    for p in pieces_of(t):
        if p[0] == 'lit':
            out.append(('lit', p[1].encode(enc)))
        elif p[2].get('ascii_blob') is not None:
            b = p[2]['ascii_blob']
            out.append(('view', b, z3.IntVal(0), b.length))
        else:
            key = p[1].sexpr()
            if key not in cache:
                ln = e.newvar('utf8len', z3.IntSort())
                e.inputs['utf8len:' + _str(p[1]).split('!')[0]] = ln
                n = core.int_term(_plen(p))
                e.add(ln >= n, ln <= 4 * n)
                b = rope.Blob('utf8_%d' % _len(cache), ln,
                              meta={'utf8_of': p, 'excludes': p[2].get('nosep', '').encode('utf-8')})
                cache[key] = b
            b = cache[key]
            out.append(('view', b, z3.IntVal(0), b.length))
    return rope.mk(out)


def decode(r, enc='utf-8'):
    if _isinstance(r, (bytes, bytearray)):
        return bytes(r).decode(enc)
    out = []
    for p in rope.pieces_of(r):
        if p[0] == 'lit':
            try:
                out.append(('lit', p[1].decode(enc)))
            except UnicodeDecodeError:
                raise
        elif p[0] == 'view' and 'utf8_of' in p[1].meta and z3.simplify(p[2]).eq(z3.IntVal(0)) and \
                (z3.simplify(p[3]).eq(z3.simplify(p[1].length)) or core.prove(p[3] == p[1].length)):
            out.append(p[1].meta['utf8_of'])
        elif p[0] == 'view' and 'b64_of' in p[1].meta and z3.simplify(p[2]).eq(z3.IntVal(0)) and \
                (z3.simplify(p[3]).eq(z3.simplify(p[1].length)) or core.prove(p[3] == p[1].length)):
            # base64 output is ASCII: decodes to a text piece tied to the same blob
            e = E()
            cache = e.tags.setdefault('ascii', {})
            if p[1].name not in cache:
                t = z3.String('ascii_%s' % p[1].name)
                e.add(z3.Length(t) == p[1].length)
                cache[p[1].name] = ('sym', t, dict(nosep=':', nonempty=False, ascii_blob=p[1]))
            out.append(cache[p[1].name])
        else:
            # arbitrary bytes: either not valid utf-8, or some unknown text
            e = E()
            if core.choose(2, 'utf8_invalid'):
                raise UnicodeDecodeError(enc, b'\xff', 0, 1, 'invalid start byte (model)')
            k = e.tags['dec'] = e.tags.get('dec', 0) + 1
            t = z3.String('decoded%d!%d' % (k, next(e.fresh)))
            out.append(('sym', t, dict(nosep='', nonempty=False)))
    return mk(out)
