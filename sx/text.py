"""Text ropes (symbolic str).  pieces: ('lit', str) | ('atom', Atom)"""
import builtins

import z3

from . import core, rope
from .core import SxInt, SxBool, Unsupported, E, mkbool

_str = builtins.str
_isinstance = builtins.isinstance
_len = builtins.len


def join(sep, items):
    items = list(items)
    if _isinstance(sep, _str) and all(_isinstance(x, _str) for x in items):
        return sep.join(items)
    out = []
    sp = tuple(pieces_of(sep))
    for k, it in enumerate(items):
        if k:
            out.extend(sp)
        out.extend(pieces_of(it))
    return mk(out)


def pieces_of(x):
    if type(x) is Text:
        return x.p
    if _isinstance(x, _str):
        return (('lit', x),) if x else ()
    raise TypeError('sequence item: expected str instance, %s found' % type(x).__name__)


def mk(pieces):
    raise Unsupported('text ropes not built yet')


class Text:
    pass


def decode(r, enc):
    raise Unsupported('decode of symbolic bytes')
