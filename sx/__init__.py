"""sx: source-level symbolic execution of /repo's Python by proxy objects over z3."""
from . import core, values, rope, loader, explore  # noqa: F401
from . import models  # noqa: F401  (registers the environment models)
from .core import *  # noqa: F401,F403
from .loader import load
