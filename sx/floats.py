"""Symbolic float values as uninterpreted tokens."""
from . import core
from .core import Unsupported


class FloatTok:
    """a symbolic float value handled as an uninterpreted token (C13/C15).  ``key`` identifies the
    source value; ``f32`` is True once it has been through a float32 pack/unpack."""
    __slots__ = ('key', 'f32', 'nan', 'big')

    def __init__(self, key, f32=False, nan=None, big=None):
        self.key = key
        self.f32 = f32
        self.nan = nan
        self.big = big      # Bool: magnitude outside the float32 range (pack 'f' raises OverflowError)

    def __eq__(self, o):
        if isinstance(o, FloatTok):
            if self.key == o.key:
                # NaN != NaN
                if self.nan is None:
                    return True
                return core.Not(self.nan)
            raise Unsupported('comparison of unrelated symbolic floats')
        return NotImplemented

    def __hash__(self):
        return hash(('FloatTok', self.key))

    def __repr__(self):
        return 'FloatTok(%s%s)' % (self.key, ',f32' if self.f32 else '')


