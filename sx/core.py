"""sx core: path exploration by re-execution, symbolic Bool/Int/Real proxies over z3.

A harness is an ordinary Python callable.  Symbolic values are proxies holding z3 terms; every
branch on a symbolic condition (``SxBool.__bool__``) consults the recorded decision prefix or
asks z3 which sides are feasible, takes one and queues the other.  ``check(cond)`` is a proof
obligation: ``pc /\\ not cond`` must be unsat on every path.
"""
import builtins
import itertools
import operator as _op
import os
import time
from fractions import Fraction

import z3

_int = builtins.int
_bool = builtins.bool
_float = builtins.float
_isinstance = builtins.isinstance
_len = builtins.len

QUERY_TIMEOUT_MS = _int(os.environ.get('SX_QUERY_TIMEOUT_MS', '30000'))


class SxControl(BaseException):
    """engine control flow; never caught by ``except Exception`` in the code under test"""


class Abort(SxControl):
    """infeasible / pruned path"""


class Unsupported(SxControl):
    pass


class Unknown(SxControl):
    pass


class StepLimit(SxControl):
    pass


class CounterExample(SxControl):
    def __init__(self, msg, model, extra=None):
        SxControl.__init__(self, msg)
        self.msg = msg
        self.model = model
        self.extra = extra or {}


class Engine:
    cur = None

    def __init__(self, prefix, seed=0, step_limit=2_000_000):
        self.solver = z3.Solver()
        self.solver.set('timeout', QUERY_TIMEOUT_MS)
        if seed:
            self.solver.set('random_seed', seed % (2 ** 31))
        self.prefix = list(prefix)
        self.pos = 0
        self.todo = []
        self.nq = 0
        self.solver_s = 0.0
        self.fresh = itertools.count()
        self.checks = 0          # obligations posed
        self.proved = 0          # obligations discharged
        self.inputs = {}         # declared symbolic inputs name -> term
        self.ticks = 0
        self.step_limit = step_limit
        self.tags = {}           # per-path ghost data for harnesses
        self.reached = set()     # labels of checks reached
        self.notes = []
        self.index_cap = 64
        self.shift_mode = 'split'
        self.model = None        # a model of the current path condition, when known

    # -- solver
    def add(self, *c):
        self.solver.add(*c)
        self.model = None

    def _check(self, *assumptions):
        self.nq += 1
        t = time.time()
        r = self.solver.check(*assumptions)
        self.solver_s += time.time() - t
        return r

    def sat(self, c):
        r = self._check(c)
        if r == z3.unknown:
            raise Unknown('solver unknown: %s' % self.solver.reason_unknown())
        return r == z3.sat

    def decide(self, cond):
        """branch on z3 Bool term"""
        if not z3.is_expr(cond):
            return _bool(cond)
        cond = z3.simplify(cond)
        if z3.is_true(cond):
            return True
        if z3.is_false(cond):
            return False
        if self.pos < _len(self.prefix):
            d = self.prefix[self.pos]
            if not _isinstance(d, _bool):
                raise Unsupported('prefix mismatch in decide')
            self.pos += 1
            self.solver.add(cond if d else z3.Not(cond))
            self.model = None
            return d
        # use the model of the current path condition (if one is known) to learn one feasible
        # side without a query; only the other side needs the solver
        m = self.model
        known = None
        if m is not None:
            try:
                v = m.eval(cond, model_completion=True)
                if z3.is_true(v):
                    known = True
                elif z3.is_false(v):
                    known = False
            except z3.Z3Exception:
                known = None
        if known is None:
            t = self.sat(cond)
            if t:
                self.model = self.solver.model()
                known = True
            else:
                known = False   # path condition is satisfiable by construction
                d = False
                self.prefix.append(d)
                self.pos += 1
                self.solver.add(z3.Not(cond))
                return d
        other = z3.Not(cond) if known else cond
        if self.sat(other):
            if known:
                # go down the True side first (model still valid), queue the False side
                self.todo.append(self.prefix[:self.pos] + [False])
                d = True
            else:
                # model satisfies Not(cond); True side is feasible too: take True, queue False
                self.todo.append(self.prefix[:self.pos] + [False])
                self.model = self.solver.model()
                d = True
        else:
            d = known
        self.prefix.append(d)
        self.pos += 1
        self.solver.add(cond if d else z3.Not(cond))
        return d

    def choose(self, n, label='choice'):
        """nondeterministic choice 0..n-1 made by the harness (an enumerated configuration
        dimension *inside* a harness); binary-encoded through decide on fresh Bools"""
        v = self.newvar(label, z3.IntSort())
        self.inputs.setdefault('%s#%d' % (label, _len(self.inputs)), v)
        self.solver.add(v >= 0, v < n)
        self.model = None
        for i in range(n - 1):
            if self.decide(v == i):
                return i
        return n - 1

    def concretize(self, term, cap=None):
        """fork over the feasible concrete values of an Int term"""
        cap = self.index_cap if cap is None else cap
        term = z3.simplify(term)
        if z3.is_int_value(term):
            return term.as_long()
        excl = ()
        if self.pos < _len(self.prefix):
            d = self.prefix[self.pos]
            if not _isinstance(d, tuple):
                raise Unsupported('prefix mismatch in concretize')
            if d[0] == 'val':
                self.pos += 1
                self.solver.add(term == d[1])
                self.model = None
                return d[1]
            # ('valx', excluded): resume the enumeration at this node
            excl = d[1]
            self.prefix.pop()
        if _len(excl) > cap:
            raise Unsupported('concretize cap %d exceeded for %s' % (cap, str(term)[:80]))
        for ex in excl:
            self.solver.add(term != ex)
        if excl or self.model is None:
            r = self._check()
            if r == z3.unknown:
                raise Unknown('solver unknown in concretize')
            if r != z3.sat:
                raise Abort()
            self.model = self.solver.model()
        v = self.model.eval(term, model_completion=True).as_long()
        if self.sat(term != v):
            self.todo.append(self.prefix[:self.pos] + [('valx', excl + (v,))])
        self.prefix.append(('val', v))
        self.pos += 1
        self.solver.add(term == v)
        return v

    def newvar(self, name, sort):
        return z3.Const('%s!%d' % (name, next(self.fresh)), sort)

    def model_values(self, model):
        out = {}
        for k, t in self.inputs.items():
            try:
                out[k] = pyval(model.eval(t, model_completion=True))
            except Exception as e:  # pragma: no cover
                out[k] = '<%s>' % e
        return out


def E():
    e = Engine.cur
    if e is None:
        raise RuntimeError('no sx engine active')
    return e


import re as _re

_ESC = _re.compile(r'\\u\{([0-9a-fA-F]+)\}|\\x([0-9a-fA-F]{2})')


def _unescape(s):
    return _ESC.sub(lambda m: chr(_int(m.group(1) or m.group(2), 16)), s)


def pyval(v):
    if z3.is_int_value(v):
        return v.as_long()
    if z3.is_bv_value(v):
        return v.as_long()
    if z3.is_true(v):
        return True
    if z3.is_false(v):
        return False
    if z3.is_rational_value(v):
        fr = Fraction(v.numerator_as_long(), v.denominator_as_long())
        return {'real': str(fr), 'float': _float(fr)}
    if z3.is_string_value(v):
        return _unescape(v.as_string())
    if z3.is_algebraic_value(v):
        return {'real': str(v.approx(10)), 'float': _float(v.approx(10).as_fraction())}
    return str(v)


# ---------------------------------------------------------------- obligations

class ReplayAbort(SxControl):
    """the recorded model does not satisfy an assumption of the harness"""


def _rp():
    e = Engine.cur
    return e if e is not None and getattr(e, 'replay', False) else None


def assume(c):
    r = _rp()
    if r is not None:
        if not _bool(c):
            raise ReplayAbort('assumption not satisfied by the model')
        return
    z = tobool(c)
    if _isinstance(z, _bool):
        if not z:
            raise Abort()
        return
    e = E()
    e.solver.add(z)
    e.model = None
    # keep the invariant "path condition is satisfiable"
    r = e._check()
    if r == z3.unknown:
        raise Unknown('solver unknown in assume')
    if r != z3.sat:
        raise Abort()
    e.model = e.solver.model()


def check(c, msg='', **extra):
    r = _rp()
    if r is not None:
        r.checks += 1
        if not _bool(c):
            r.failures.append(msg)
        return
    e = E()
    e.checks += 1
    e.reached.add(msg)
    z = tobool(c)
    if _isinstance(z, _bool):
        if not z:
            r = e._check()
            if r == z3.unknown:
                raise Unknown('solver unknown in check')
            raise CounterExample(msg, e.model_values(e.solver.model()), extra)
        e.proved += 1
        return
    r = e._check(z3.Not(z))
    if r == z3.sat:
        raise CounterExample(msg, e.model_values(e.solver.model()), extra)
    if r == z3.unknown:
        raise Unknown('solver unknown in check(%s): %s' % (msg, e.solver.reason_unknown()))
    e.proved += 1
    e.solver.add(z)


def fail(msg, **extra):
    check(False, msg, **extra)


def reach(label):
    """vacuity marker: records that some path got here"""
    E().reached.add('reach:' + label)


class ReplayEngine:
    """concrete re-execution of a harness: the sx API hands out the values of a recorded model"""
    replay = True

    def __init__(self, model):
        self.model = dict(model)
        self.inputs = {}
        self.tags = {}
        self.ticks = 0
        self.checks = 0
        self.failures = []
        self.reached = set()
        self.fresh = itertools.count()
        self.step_limit = 10 ** 12
        self.shift_mode = 'split'
        self.index_cap = 64
        self.notes = []

    def add(self, *a):
        pass

    def choose(self, n, label='choice'):
        key = '%s#%d' % (label, _len(self.inputs))
        self.inputs[key] = True
        v = self.model.get(key)
        if v is None:
            # tolerate renumbering: same label, any position
            for k in self.model:
                if k.split('#')[0] == label and k not in self.inputs:
                    v = self.model[k]
                    break
        v = _int(v or 0)
        return max(0, min(n - 1, v))

    def newvar(self, *a):
        raise ReplayAbort('harness uses solver terms directly: no generic replay')

    def sat(self, *a):
        raise ReplayAbort('harness queries the solver directly: no generic replay')

    decide = sat
    concretize = sat


def tick(n=1):
    e = Engine.cur
    if e is None or getattr(e, 'replay', False):
        return
    e.ticks += n
    if e.ticks > e.step_limit:
        raise StepLimit('step limit %d' % e.step_limit)


# ---------------------------------------------------------------- Bool

def tobool(c):
    if _isinstance(c, SxBool):
        return c.z
    if _isinstance(c, SxInt):
        if c.z is None:
            return c.v != 0
        return c.z != 0
    if z3.is_expr(c):
        return c
    return _bool(c)


def zb(o):
    z = tobool(o)
    if _isinstance(z, _bool):
        return z3.BoolVal(z)
    return z


def mkbool(z):
    if _isinstance(z, _bool):
        return z
    z = z3.simplify(z)
    if z3.is_true(z):
        return True
    if z3.is_false(z):
        return False
    return SxBool(z)


class SxBool:
    __slots__ = ('z',)

    def __init__(self, z):
        self.z = z

    def __bool__(self):
        return E().decide(self.z)

    def __and__(s, o):
        return mkbool(z3.And(s.z, zb(o)))
    __rand__ = __and__

    def __or__(s, o):
        return mkbool(z3.Or(s.z, zb(o)))
    __ror__ = __or__

    def __xor__(s, o):
        return mkbool(z3.Xor(s.z, zb(o)))
    __rxor__ = __xor__

    def __invert__(s):
        return mkbool(z3.Not(s.z))

    def __eq__(s, o):
        if _isinstance(o, (SxBool, _bool)):
            return mkbool(s.z == zb(o))
        if _isinstance(o, (SxInt, _int)):
            return SxInt.wrap(z3.If(s.z, 1, 0)) == o
        return False

    def __ne__(s, o):
        r = s.__eq__(o)
        return (not r) if _isinstance(r, _bool) else ~r

    def __hash__(s):
        raise Unsupported('hash of symbolic bool')

    def __index__(s):
        return 1 if E().decide(s.z) else 0
    __int__ = __index__

    def __repr__(s):
        return 'SxBool(%s)' % str(s.z)[:60]

    def ite(s, a, b):
        return ite(s, a, b)


def Not(c):
    z = tobool(c)
    if _isinstance(z, _bool):
        return not z
    return mkbool(z3.Not(z))


def And(*cs):
    zs = []
    for c in cs:
        z = tobool(c)
        if _isinstance(z, _bool):
            if not z:
                return False
            continue
        zs.append(z)
    if not zs:
        return True
    return mkbool(z3.And(*zs))


def Or(*cs):
    zs = []
    for c in cs:
        z = tobool(c)
        if _isinstance(z, _bool):
            if z:
                return True
            continue
        zs.append(z)
    if not zs:
        return False
    return mkbool(z3.Or(*zs))


def Implies(a, b):
    return Or(Not(a), b)


def Iff(a, b):
    return mkbool(zb(a) == zb(b))


# ---------------------------------------------------------------- Int

def is_sym(x):
    return (_isinstance(x, SxInt) and x.z is not None) or _isinstance(x, (SxBool, SxReal))


class SxInt:
    """int proxy.  v: concrete int or None;  z: z3 Int or BitVec term or None.  Subclassable
    (``class SeqNum(int)`` in the code under test becomes a subclass of this)."""

    def __new__(cls, value=0, *a):
        if a:
            # int(str, base)
            return _int(value, *a)
        if _isinstance(value, SxInt):
            v, z = value.v, value.z
        elif _isinstance(value, _bool):
            v, z = _int(value), None
        elif _isinstance(value, _int):
            v, z = value, None
        elif _isinstance(value, SxBool):
            v, z = None, z3.If(value.z, 1, 0)
        elif _isinstance(value, SxReal):
            t = z3.simplify(value.z)
            # int() truncates toward zero
            z = z3.If(t >= 0, z3.ToInt(t), -z3.ToInt(-t))
            z = z3.simplify(z)
            if z3.is_int_value(z):
                v, z = z.as_long(), None
            else:
                v = None
        elif z3.is_expr(value):
            v, z = None, value
        elif _isinstance(value, _float):
            v, z = _int(value), None
        elif _isinstance(value, (str, bytes, bytearray)):
            v, z = _int(value), None
        elif hasattr(value, '__sx_int__'):
            return value.__sx_int__()
        elif hasattr(value, '__int__'):
            v, z = _int(value), None
        else:
            raise TypeError("int() argument must be a string or a number, not '%s'" % type(value).__name__)
        if cls is SxInt and z is None:
            return v
        o = object.__new__(cls)
        o.v = v
        o.z = z
        o.m = getattr(value, 'm', None) if z is not None else None
        return o

    @staticmethod
    def wrap(x, m=None):
        """plain int if the term simplifies to a value, else SxInt.  m: mask of the bits that can
        be set in a non-negative value (None = unknown), used to keep | ^ & in linear arithmetic"""
        if z3.is_expr(x):
            x = z3.simplify(x)
            if z3.is_int_value(x) or z3.is_bv_value(x):
                return x.as_long()
            o = object.__new__(SxInt)
            o.v = None
            o.z = x
            o.m = m
            return o
        return x

    def term(s):
        return s.z if s.z is not None else z3.IntVal(s.v)

    def iterm(s):
        """always an Int-sorted term"""
        if s.z is None:
            return z3.IntVal(s.v)
        if z3.is_bv(s.z):
            return z3.BV2Int(s.z)
        return s.z

    def isbv(s):
        return s.z is not None and z3.is_bv(s.z)

    def __index__(s):
        if s.z is None:
            return s.v
        return E().concretize(s.iterm())
    __int__ = __index__

    def __float__(s):
        if s.z is None:
            return _float(s.v)
        raise Unsupported('float() of symbolic int')

    def __repr__(s):
        return '%s(%s)' % (type(s).__name__, s.v if s.z is None else str(s.z)[:60])

    def __str__(s):
        if s.z is None:
            return str(s.v)
        return '<sym>'

    def __format__(s, spec):
        if s.z is None:
            return format(s.v, spec)
        return '<sym>'

    def __hash__(s):
        if s.z is None:
            return hash(s.v)
        raise Unsupported('hash of symbolic int')

    def __bool__(s):
        if s.z is None:
            return s.v != 0
        return E().decide(s.z != 0)

    def bit_length(s):
        if s.z is None:
            return s.v.bit_length()
        raise Unsupported('bit_length of symbolic int')

    def to_bytes(s, *a, **k):
        if s.z is None:
            return s.v.to_bytes(*a, **k)
        raise Unsupported('to_bytes of symbolic int')

    @property
    def real(s):
        return s

    @property
    def numerator(s):
        return s


def _lift(o):
    """-> (kind, payload)  kind 'c' concrete int, 'i' z3 Int, 'b' z3 BV, 'r' real"""
    if _isinstance(o, SxInt):
        if o.z is None:
            return 'c', o.v
        return ('b' if z3.is_bv(o.z) else 'i'), o.z
    if _isinstance(o, _bool):
        return 'c', _int(o)
    if _isinstance(o, _int):
        return 'c', o
    if _isinstance(o, SxBool):
        return 'i', z3.If(o.z, 1, 0)
    return None, None


def _toint(k, x):
    if k == 'c':
        return z3.IntVal(x)
    if k == 'b':
        return z3.BV2Int(x)
    return x


def _arith(op, a, b):
    if _isinstance(a, (SxReal, _float)) or _isinstance(b, (SxReal, _float)):
        return _rarith(op, a, b)
    ka, xa = _lift(a)
    kb, xb = _lift(b)
    if ka is None or kb is None:
        return NotImplemented
    if ka == 'c' and kb == 'c':
        return op(xa, xb)
    if op in (_op.mul,) and ka != 'c' and kb != 'c':
        raise Unsupported('symbolic * symbolic')
    return SxInt.wrap(op(_toint(ka, xa), _toint(kb, xb)))


_BVCMP = {_op.lt: z3.ULT, _op.le: z3.ULE, _op.gt: z3.UGT, _op.ge: z3.UGE}


def _cmp(op, a, b):
    if _isinstance(a, (SxReal, _float)) or _isinstance(b, (SxReal, _float)):
        return _rcmp(op, a, b)
    ka, xa = _lift(a)
    kb, xb = _lift(b)
    if ka is None or kb is None:
        return NotImplemented
    if ka == 'c' and kb == 'c':
        return op(xa, xb)
    if ka == 'b' and kb == 'b' and xa.size() == xb.size():
        return mkbool(_BVCMP[op](xa, xb) if op in _BVCMP else op(xa, xb))
    if ka == 'b' and kb == 'c' and not (0 <= xb < (1 << xa.size())):
        # an unsigned bit-vector against a constant outside its range: decided statically
        return op(0 if xb >= 0 else 1, 1 if xb >= 0 else 0)
    if kb == 'b' and ka == 'c' and not (0 <= xa < (1 << xb.size())):
        return op(1 if xa >= 0 else 0, 0 if xa >= 0 else 1)
    if ka == 'b' and kb == 'c' and 0 <= xb < (1 << xa.size()):
        xb = z3.BitVecVal(xb, xa.size())
        return mkbool(_BVCMP[op](xa, xb) if op in _BVCMP else op(xa, xb))
    if kb == 'b' and ka == 'c' and 0 <= xa < (1 << xb.size()):
        xa = z3.BitVecVal(xa, xb.size())
        return mkbool(_BVCMP[op](xa, xb) if op in _BVCMP else op(xa, xb))
    return mkbool(op(_toint(ka, xa), _toint(kb, xb)))


def _bin(name, op):
    def f(s, o):
        return _arith(op, s, o)

    def r(s, o):
        return _arith(op, o, s)
    setattr(SxInt, '__%s__' % name, f)
    setattr(SxInt, '__r%s__' % name, r)


def _floordiv(a, b):
    if _isinstance(a, _int) and _isinstance(b, _int):
        return a // b
    if z3.is_int_value(b) and b.as_long() > 0:
        return a / b       # z3 Int div == floor for a positive divisor
    if z3.is_int_value(a):
        raise Unsupported('const // symbolic')
    raise Unsupported('// by non-positive or symbolic divisor')


def _mod(a, b):
    if _isinstance(a, _int) and _isinstance(b, _int):
        return a % b
    if z3.is_int_value(b) and b.as_long() > 0:
        return a % b
    raise Unsupported('% by non-positive or symbolic divisor')


_bin('add', _op.add)
_bin('sub', _op.sub)
_bin('mul', _op.mul)
_bin('floordiv', _floordiv)
_bin('mod', _mod)
for _n, _o in (('lt', _op.lt), ('le', _op.le), ('gt', _op.gt), ('ge', _op.ge)):
    setattr(SxInt, '__%s__' % _n, (lambda o: lambda s, x: _cmp(o, s, x))(_o))


def _eq(s, x):
    if x is None:
        return False
    r = _cmp(_op.eq, s, x)
    return False if r is NotImplemented else r


def _ne(s, x):
    if x is None:
        return True
    r = _cmp(_op.ne, s, x)
    return True if r is NotImplemented else r


SxInt.__eq__ = _eq
SxInt.__ne__ = _ne
SxInt.__neg__ = lambda s: _arith(_op.sub, 0, s)
SxInt.__pos__ = lambda s: s
SxInt.__abs__ = lambda s: (abs(s.v) if s.z is None else SxInt.wrap(z3.If(s.iterm() >= 0, s.iterm(), -s.iterm())))


def _truediv(a, b):
    return _rarith(_op.truediv, a, b)


SxInt.__truediv__ = lambda s, o: _truediv(s, o)
SxInt.__rtruediv__ = lambda s, o: _truediv(o, s)


def _pow(s, o):
    ka, xa = _lift(s)
    kb, xb = _lift(o)
    if ka == 'c' and kb == 'c':
        return xa ** xb
    raise Unsupported('symbolic **')


SxInt.__pow__ = _pow
SxInt.__rpow__ = lambda s, o: _pow(o, s)

# ---- bit operations

def maskof(o):
    """possible-bits mask of a non-negative int-ish value, or None"""
    if _isinstance(o, SxInt):
        if o.z is None:
            return o.v if o.v >= 0 else None
        if z3.is_bv(o.z):
            return (1 << o.z.size()) - 1
        return getattr(o, 'm', None)
    if _isinstance(o, _bool):
        return _int(o)
    if _isinstance(o, _int):
        return o if o >= 0 else None
    if _isinstance(o, SxBool):
        return 1
    return None


def _disjoint(a, b):
    """can a | b be computed as a + b ?  (mask bookkeeping first, one LIA proof as a fallback)"""
    ma, mb = maskof(a), maskof(b)
    if ma is not None and mb is not None:
        if ma & mb == 0:
            return True
    for (x, mx, y, my) in ((a, ma, b, mb), (b, mb, a, ma)):
        if mx is not None and mx > 0 and _is_mask_run(mx) is not None:
            ky, ty = _lift(y)
            if ky == 'i':
                lo, n = _is_mask_run(mx)
                e = Engine.cur
                r = e._check(z3.Not(z3.And(ty >= 0, (ty / (1 << lo)) % (1 << n) == 0)))
                if r == z3.unsat:
                    return True
    return False



def _is_mask_run(m):
    """m == ((1<<n)-1) << lo  ->  (lo, n) else None"""
    if m <= 0:
        return None
    lo = (m & -m).bit_length() - 1
    r = m >> lo
    if r & (r + 1) == 0:
        return lo, r.bit_length()
    return None


def _bvpair(a, b):
    ka, xa = _lift(a)
    kb, xb = _lift(b)
    w = None
    for k, x in ((ka, xa), (kb, xb)):
        if k == 'b':
            w = max(w or 0, x.size())
    if w is None:
        ms = [maskof(o) for o, k in ((a, ka), (b, kb)) if k == 'i']
        if ms and all(m is not None for m in ms):
            w = max([m.bit_length() for m in ms] + [1])
        else:
            w = 64
    for k, x in ((ka, xa), (kb, xb)):
        if k == 'c':
            if x < 0:
                raise Unsupported('negative constant in bit operation')
            w = max(w, x.bit_length())

    def conv(k, x):
        if k == 'b':
            return x if x.size() == w else z3.ZeroExt(w - x.size(), x)
        if k == 'c':
            return z3.BitVecVal(x, w)
        return z3.Int2BV(x, w)
    return conv(ka, xa), conv(kb, xb)


def _and(s, o):
    ka, xa = _lift(s)
    kb, xb = _lift(o)
    if ka is None or kb is None:
        return NotImplemented
    if ka == 'c' and kb == 'c':
        return xa & xb
    # Int-backed value & concrete contiguous mask  ->  div/mod (value assumed >= 0: checked)
    for (k1, x1, k2, x2) in ((ka, xa, kb, xb), (kb, xb, ka, xa)):
        if k1 == 'i' and k2 == 'c':
            if x2 == 0:
                return 0
            run = _is_mask_run(x2)
            if run is not None:
                e = E()
                if not e.sat(x1 < 0):
                    lo, n = run
                    return SxInt.wrap(((x1 / (1 << lo)) % (1 << n)) * (1 << lo), m=x2)
    p = _bvpair(s, o)
    return SxInt.wrap(p[0] & p[1])


def _or(s, o):
    ka, xa = _lift(s)
    kb, xb = _lift(o)
    if ka is None or kb is None:
        return NotImplemented
    if ka == 'c' and kb == 'c':
        return xa | xb
    if (ka == 'c' and xa == 0):
        return o
    if (kb == 'c' and xb == 0):
        return s
    if 'b' not in (ka, kb) and _disjoint(s, o):
        ma, mb = maskof(s), maskof(o)
        return SxInt.wrap(_toint(ka, xa) + _toint(kb, xb), m=(ma | mb) if ma is not None and mb is not None else None)
    # non-negative Int term | contiguous constant mask:  x - (x & m) + m   (stays in linear arithmetic)
    for (k1, x1, o1, k2, x2) in ((ka, xa, s, kb, xb), (kb, xb, o, ka, xa)):
        if k1 == 'i' and k2 == 'c' and x2 > 0 and _is_mask_run(x2) is not None:
            if maskof(o1) is not None or not Engine.cur.sat(x1 < 0):
                lo, n = _is_mask_run(x2)
                part = ((x1 / (1 << lo)) % (1 << n)) * (1 << lo)
                m1 = maskof(o1)
                return SxInt.wrap(x1 - part + x2, m=(m1 | x2) if m1 is not None else None)
    p = _bvpair(s, o)
    return SxInt.wrap(p[0] | p[1])


def _xor(s, o):
    ka, xa = _lift(s)
    kb, xb = _lift(o)
    if ka is None or kb is None:
        return NotImplemented
    if ka == 'c' and kb == 'c':
        return xa ^ xb
    if 'b' not in (ka, kb) and maskof(s) is not None and maskof(o) is not None and maskof(s) & maskof(o) == 0:
        return SxInt.wrap(_toint(ka, xa) + _toint(kb, xb), m=maskof(s) | maskof(o))
    p = _bvpair(s, o)
    return SxInt.wrap(p[0] ^ p[1])


SxInt.__and__ = _and
SxInt.__rand__ = lambda s, o: _and(o, s)
SxInt.__or__ = _or
SxInt.__ror__ = lambda s, o: _or(o, s)
SxInt.__xor__ = _xor
SxInt.__rxor__ = lambda s, o: _xor(o, s)


def _shift(a, n, right):
    ka, xa = _lift(a)
    if ka is None:
        return NotImplemented
    kn, xn = _lift(n)
    if kn is None:
        return NotImplemented
    e = Engine.cur
    if kn != 'c':
        xn = _toint(kn, xn)
        if e.shift_mode == 'term' and right and ka in ('c', 'b'):
            w = max(xa.bit_length(), 1) if ka == 'c' else xa.size()
            base = z3.BitVecVal(xa, w) if ka == 'c' else xa
            return SxInt.wrap(z3.If(z3.Or(xn >= w, xn < 0), z3.BitVecVal(0, w), z3.LShR(base, z3.Int2BV(xn, w))))
        if right:
            w = xa.bit_length() if ka == 'c' else (xa.size() if ka == 'b' else None)
            if w is not None and e.decide(xn >= w):
                return 0
        n = e.concretize(xn, cap=max(e.index_cap, 300))
    else:
        n = xn
    if n < 0:
        raise ValueError('negative shift count')
    if ka == 'c':
        return (xa >> n) if right else (xa << n)
    if ka == 'b':
        if right:
            return SxInt.wrap(z3.LShR(xa, n) if n < xa.size() else z3.BitVecVal(0, xa.size()))
        return SxInt.wrap(z3.ZeroExt(n, xa) << n)
    ma = maskof(a)
    if right:
        return SxInt.wrap(xa / (1 << n), m=(ma >> n) if ma is not None else None)
    return SxInt.wrap(xa * (1 << n), m=(ma << n) if ma is not None else None)


SxInt.__rshift__ = lambda s, n: _shift(s, n, True)
SxInt.__lshift__ = lambda s, n: _shift(s, n, False)
SxInt.__rrshift__ = lambda s, a: _shift(a, s, True)
SxInt.__rlshift__ = lambda s, a: _shift(a, s, False)
SxInt.__invert__ = lambda s: _arith(_op.sub, -1, s)


# ---------------------------------------------------------------- Real

def _rterm(x):
    if _isinstance(x, SxReal):
        return x.z
    if _isinstance(x, SxInt):
        if x.z is None:
            return z3.RealVal(x.v)
        return z3.ToReal(x.iterm())
    if _isinstance(x, _bool):
        return z3.RealVal(_int(x))
    if _isinstance(x, _int):
        return z3.RealVal(x)
    if _isinstance(x, _float):
        if x != x or x in (_float('inf'), _float('-inf')):
            raise Unsupported('nan/inf in real arithmetic')
        fr = Fraction(x).limit_denominator(10 ** 12)
        return z3.RealVal(str(fr))
    if _isinstance(x, Fraction):
        return z3.RealVal(str(x))
    if _isinstance(x, SxBool):
        return z3.If(x.z, z3.RealVal(1), z3.RealVal(0))
    return None


class SxReal:
    """exact real standing in for float clock readings / intervals"""
    __slots__ = ('z', 'imprecise')

    def __init__(self, z, imprecise=False):
        self.z = z
        self.imprecise = imprecise

    @staticmethod
    def wrap(z, imprecise=False):
        z = z3.simplify(z)
        if z3.is_rational_value(z) and not imprecise:
            fr = Fraction(z.numerator_as_long(), z.denominator_as_long())
            return _float(fr)
        return SxReal(z, imprecise)

    def __repr__(s):
        return 'SxReal(%s)' % str(s.z)[:60]

    def __hash__(s):
        raise Unsupported('hash of symbolic real')

    def __bool__(s):
        _guard(s)
        return E().decide(s.z != 0)

    def __float__(s):
        raise Unsupported('float() of symbolic real')

    def __neg__(s):
        return SxReal.wrap(-s.z, s.imprecise)

    def __pos__(s):
        return s

    def __abs__(s):
        return SxReal.wrap(z3.If(s.z >= 0, s.z, -s.z), s.imprecise)

    def __int__(s):
        return _int(SxInt(s))

    def __round__(s, n=None):
        raise Unsupported('round of symbolic real')


def _guard(*xs):
    for x in xs:
        if _isinstance(x, SxReal) and x.imprecise:
            raise Unsupported('imprecise real reached a branch or obligation')


def _rarith(op, a, b):
    ta, tb = _rterm(a), _rterm(b)
    if ta is None or tb is None:
        return NotImplemented
    imp = getattr(a, 'imprecise', False) or getattr(b, 'imprecise', False)
    sa = not z3.is_rational_value(z3.simplify(ta))
    sb = not z3.is_rational_value(z3.simplify(tb))
    if op is _op.mul and sa and sb:
        return SxReal(E().newvar('imprecise', z3.RealSort()), True)
    if op is _op.truediv:
        if sb:
            return SxReal(E().newvar('imprecise', z3.RealSort()), True)
        if z3.simplify(tb == 0).eq(z3.BoolVal(True)):
            raise ZeroDivisionError('division by zero')
        return SxReal.wrap(ta / tb, imp)
    if op in (_floordiv, _mod):
        raise Unsupported('real // or %')
    return SxReal.wrap(op(ta, tb), imp)


def _rcmp(op, a, b):
    _guard(a, b)
    ta, tb = _rterm(a), _rterm(b)
    if ta is None or tb is None:
        return NotImplemented
    return mkbool(op(ta, tb))


for _n, _o in (('add', _op.add), ('sub', _op.sub), ('mul', _op.mul), ('truediv', _op.truediv)):
    setattr(SxReal, '__%s__' % _n, (lambda o: lambda s, x: _rarith(o, s, x))(_o))
    setattr(SxReal, '__r%s__' % _n, (lambda o: lambda s, x: _rarith(o, x, s))(_o))
for _n, _o in (('lt', _op.lt), ('le', _op.le), ('gt', _op.gt), ('ge', _op.ge)):
    setattr(SxReal, '__%s__' % _n, (lambda o: lambda s, x: _rcmp(o, s, x))(_o))


def _req(s, x):
    if x is None:
        return False
    r = _rcmp(_op.eq, s, x)
    return False if r is NotImplemented else r


def _rne(s, x):
    if x is None:
        return True
    r = _rcmp(_op.ne, s, x)
    return True if r is NotImplemented else r


SxReal.__eq__ = _req
SxReal.__ne__ = _rne


# ---------------------------------------------------------------- helpers

def ite(c, a, b):
    """symbolic if-then-else over ints/reals/bools without forking"""
    z = tobool(c)
    if _isinstance(z, _bool):
        return a if z else b
    if _isinstance(a, (SxReal, _float)) or _isinstance(b, (SxReal, _float)):
        return SxReal.wrap(z3.If(z, _rterm(a), _rterm(b)))
    if _isinstance(a, (SxBool, _bool)) and _isinstance(b, (SxBool, _bool)):
        return mkbool(z3.If(z, zb(a), zb(b)))
    ka, xa = _lift(a)
    kb, xb = _lift(b)
    if ka == 'b' and kb == 'b' and xa.size() == xb.size():
        return SxInt.wrap(z3.If(z, xa, xb))
    return SxInt.wrap(z3.If(z, _toint(ka, xa), _toint(kb, xb)))


def _model_num(v, default=0):
    if _isinstance(v, dict):
        return v.get('float', default)
    return default if v is None else v


def symint(name, lo=None, hi=None):
    r = _rp()
    if r is not None:
        r.inputs[name] = True
        return _int(_model_num(r.model.get(name), lo if _isinstance(lo, _int) else 0))
    e = E()
    z = e.newvar(name, z3.IntSort())
    e.inputs[name] = z
    if lo is not None:
        e.add(z >= lo)
    if hi is not None:
        e.add(z <= hi)
    m = None
    if lo is not None and hi is not None and _isinstance(lo, _int) and _isinstance(hi, _int) and lo >= 0:
        m = (1 << hi.bit_length()) - 1
    return SxInt.wrap(z, m=m)


def symbv(name, w):
    r = _rp()
    if r is not None:
        r.inputs[name] = True
        return _int(_model_num(r.model.get(name), 0))
    e = E()
    z = e.newvar(name, z3.BitVecSort(w))
    e.inputs[name] = z
    return SxInt.wrap(z)


def symbool(name):
    r = _rp()
    if r is not None:
        r.inputs[name] = True
        return _bool(r.model.get(name, False))
    e = E()
    z = e.newvar(name, z3.BoolSort())
    e.inputs[name] = z
    return SxBool(z)


def symreal(name, lo=None, hi=None):
    r = _rp()
    if r is not None:
        r.inputs[name] = True
        v = r.model.get(name)
        if v is None:
            v = lo if _isinstance(lo, (_int, _float)) else 0.0
        return _float(_model_num(v, 0.0))
    e = E()
    z = e.newvar(name, z3.RealSort())
    e.inputs[name] = z
    if lo is not None:
        e.add(z >= _rterm(lo))
    if hi is not None:
        e.add(z <= _rterm(hi))
    return SxReal(z)


def declare_input(name, term):
    E().inputs[name] = term if _rp() is None else True


def choose(n, label='choice'):
    return E().choose(n, label)


def concrete(x, cap=None):
    """force a concrete python int out of x (forking over feasible values)"""
    if _isinstance(x, SxInt):
        if x.z is None:
            return x.v
        return E().concretize(x.iterm(), cap)
    if _isinstance(x, SxBool):
        return _bool(x)
    return x


def int_term(x):
    k, t = _lift(x)
    if k is None:
        raise TypeError('not an int: %r' % (x,))
    return _toint(k, t)


def prove(c):
    """True iff c holds on the current path (no fork, no obligation)"""
    if _rp() is not None:
        return _bool(c)
    z = tobool(c)
    if _isinstance(z, _bool):
        return z
    e = E()
    r = e._check(z3.Not(z))
    if r == z3.unknown:
        raise Unknown('solver unknown in prove')
    return r == z3.unsat


def possible(c):
    if _rp() is not None:
        return _bool(c)
    z = tobool(c)
    if _isinstance(z, _bool):
        return z
    return E().sat(z)
