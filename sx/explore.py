"""Path exploration drivers: serial DFS and a process pool that shards decision subtrees."""
import importlib
import multiprocessing as mp
import os
import time
import traceback
from concurrent.futures import ProcessPoolExecutor, FIRST_COMPLETED, wait

import z3

from . import core
from .core import Engine, Abort, Unsupported, Unknown, StepLimit, CounterExample, SxControl

BEFORE_PATH = []     # callables run before every path (global state restore)


def new_stats():
    return dict(paths=0, passed=0, pruned=0, cex=[], unknown=[], unsupported=[], steplimit=0,
                errors=[], queries=0, solver_s=0.0, checks=0, proved=0, reached=set(),
                paths_with_checks=0, samples=[], max_ticks=0, notes=[])


def merge(a, b):
    for k in ('paths', 'passed', 'pruned', 'steplimit', 'queries', 'solver_s', 'checks', 'proved',
              'paths_with_checks'):
        a[k] += b[k]
    for k in ('cex', 'unknown', 'unsupported', 'errors', 'notes'):
        a[k].extend(b[k])
    a['reached'] |= set(b['reached'])
    a['max_ticks'] = max(a['max_ticks'], b['max_ticks'])
    for s in b['samples']:
        if len(a['samples']) < 4:
            a['samples'].append(s)
    return a


def _fmt_prefix(p):
    return ''.join(('T' if d else 'F') if isinstance(d, bool) else '[%s]' % (d[1],) for d in p)


def run_path(harness, prefix, stats, seed=0, want_sample=False, step_limit=2_000_000):
    for f in BEFORE_PATH:
        f()
    e = Engine(prefix, seed=seed, step_limit=step_limit)
    Engine.cur = e
    stats['paths'] += 1
    outcome = 'pass'
    try:
        harness()
        stats['passed'] += 1
    except Abort:
        stats['pruned'] += 1
        outcome = 'pruned'
    except CounterExample as c:
        outcome = 'cex'
        stats['cex'].append(dict(msg=c.msg, model=c.model, prefix=_fmt_prefix(e.prefix[:e.pos]),
                                 extra=c.extra))
    except Unknown as u:
        outcome = 'unknown'
        stats['unknown'].append(str(u)[:300])
    except Unsupported as u:
        outcome = 'unsupported'
        tb = traceback.extract_tb(u.__traceback__)
        where = ' <- '.join('%s:%d' % (os.path.basename(f.filename), f.lineno) for f in tb[-4:])
        stats['unsupported'].append('%s @ %s' % (str(u)[:200], where))
    except StepLimit:
        outcome = 'steplimit'
        stats['steplimit'] += 1
    except SxControl as x:  # pragma: no cover
        stats['errors'].append('control: %r' % (x,))
    except RecursionError as x:
        stats['errors'].append('RecursionError in harness')
    except Exception as x:
        # an exception the harness did not expect.  If the path is feasible its model is a counterexample candidate:
        # the replay on the real package decides whether the code really fails there (VIOLATION) or the harness /
        # a model is at fault (reported as a non-reproducing counterexample = inconclusive)
        tb = traceback.format_exc(limit=-6)
        model = None
        # only an exception raised *inside the repository's code* is a candidate; one raised by the harness itself (or by
        # a model) is a harness error
        frames = traceback.extract_tb(x.__traceback__)
        inner = frames[-1].filename if frames else ''
        from . import loader as _loader
        in_repo = os.path.abspath(inner).startswith(os.path.abspath(os.path.join(_loader.REPO, 'mpgameserver')) + os.sep)
        try:
            if in_repo and e.solver.check() == z3.sat:
                model = e.model_values(e.solver.model())
        except Exception:
            model = None
        if model is not None:
            outcome = 'cex'
            stats['cex'].append(dict(msg='the code under check raised %s: %s' % (type(x).__name__, str(x)[:160]), model=model,
                                     prefix=_fmt_prefix(e.prefix[:e.pos]), extra=dict(traceback=tb[-800:])))
        else:
            stats['errors'].append('%s: %s\n%s' % (type(x).__name__, str(x)[:300], tb[-1500:]))
            outcome = 'error'
    finally:
        Engine.cur = None
    stats['queries'] += e.nq
    stats['solver_s'] += e.solver_s
    stats['checks'] += e.checks
    stats['proved'] += e.proved
    stats['reached'] |= e.reached
    stats['max_ticks'] = max(stats['max_ticks'], e.ticks)
    stats['notes'].extend(e.notes[:3])
    if e.checks:
        stats['paths_with_checks'] += 1
    if want_sample and outcome == 'pass' and len(stats['samples']) < 4 and e.inputs:
        try:
            if e.solver.check() == z3.sat:
                stats['samples'].append(dict(decisions=_fmt_prefix(e.prefix[:e.pos])[:200],
                                             obligations=e.checks,
                                             model=e.model_values(e.solver.model())))
        except Exception:
            pass
    return e.todo, outcome


def explore(harness, max_paths=1_000_000, deadline=None, prefix=(), seed=0, stop_on_cex=False,
            step_limit=2_000_000):
    """serial DFS over the subtree under ``prefix``; returns (stats, leftover_prefixes)"""
    stats = new_stats()
    work = [list(prefix)]
    while work and stats['paths'] < max_paths:
        if deadline is not None and time.time() > deadline:
            break
        p = work.pop()
        todo, outcome = run_path(harness, p, stats, seed=seed,
                                 want_sample=len(stats['samples']) < 4, step_limit=step_limit)
        work.extend(todo)
        if stop_on_cex and stats['cex']:
            break
    return stats, work


# ------------------------------------------------------------ process pool

_REG = {}


def _get_harness(modname, key):
    mod = importlib.import_module(modname)
    return mod.get_harness(key)


def _pool_task(modname, key, prefix, max_paths, max_s, seed, step_limit):
    try:
        h = _get_harness(modname, key)
        try:
            step_limit = importlib.import_module(modname).R.lemmas[key[0]].step_limit
        except Exception:
            pass
        stats, left = explore(h, max_paths=max_paths, deadline=time.time() + max_s, prefix=prefix,
                              seed=seed, step_limit=step_limit)
        stats['reached'] = sorted(stats['reached'])
        from . import loader as _loader
        stats['entered'] = sorted(_loader.ENTERED)
        return key, stats, left
    except BaseException as x:  # pragma: no cover
        st = new_stats()
        st['errors'].append('worker: %s\n%s' % (repr(x), traceback.format_exc()[-1500:]))
        st['reached'] = []
        return key, st, []


def explore_pool(modname, keys, nproc=None, chunk_paths=24, chunk_s=4.0, seed=0, deadline=None,
                 path_cap=200_000, step_limit=2_000_000, stop_on_cex=True, progress=None):
    """Explore several harness instances (``keys``) of module ``modname`` on a process pool.
    Work unit = a decision prefix; a worker explores its subtree for a bounded chunk and hands
    the unexplored frontier back.  Returns {key: stats}; stats['left'] > 0 means not finished."""
    nproc = nproc or min(16, os.cpu_count() or 4)
    results = {k: new_stats() for k in keys}
    for k in keys:
        results[k]['left'] = 0
    queue = [(k, []) for k in keys]
    ctx = mp.get_context('fork')
    dead = set()
    with ProcessPoolExecutor(max_workers=nproc, mp_context=ctx) as ex:
        running = {}
        while queue or running:
            timed_out = deadline is not None and time.time() > deadline
            if len(queue) > 1:
                queue.sort(key=lambda kp: -len(kp[1]))     # shallow prefixes (big subtrees) first
            while queue and len(running) < nproc * 2 and not timed_out:
                k, p = queue.pop()
                if k in dead:
                    results[k]['left'] += 1
                    continue
                fut = ex.submit(_pool_task, modname, k, p, chunk_paths, chunk_s, seed, step_limit)
                running[fut] = k
            if timed_out and not running:
                for k, p in queue:
                    results[k]['left'] += 1
                queue = []
                break
            if not running:
                continue
            done, _ = wait(list(running), return_when=FIRST_COMPLETED, timeout=5)
            for fut in done:
                k = running.pop(fut)
                try:
                    key, st, left = fut.result()
                except BaseException as x:  # pragma: no cover
                    results[k]['errors'].append('pool: %r' % (x,))
                    continue
                st['reached'] = set(st['reached'])
                results[k].setdefault('entered', set()).update(st.pop('entered', []))
                merge(results[k], st)
                for p in left:
                    queue.append((k, p))
                r = results[k]
                if (stop_on_cex and r['cex']) or r['paths'] > path_cap or r['errors']:
                    if r['paths'] > path_cap:
                        r['errors'].append('path cap %d exceeded' % path_cap)
                    dead.add(k)
                if progress:
                    progress(k, r)
    return results
