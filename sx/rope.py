"""Byte and text ropes: sequences of pieces, some of symbolic length / content.

piece kinds (tuples)
  ('lit', b'...')                               concrete bytes
  ('fld', term, width, signed)                  big-endian packed integer field, term is a z3 Int
  ('opq', token, width, tag)                    fixed-width opaque field carrying a python object
                                                (float32 payloads etc.)
  ('view', blob, start, stop)                   slice of an opaque blob; start/stop are z3 Int terms
"""
import builtins

import z3

from . import core
from .core import SxInt, SxBool, Unsupported, E, mkbool, tobool, int_term

_isinstance = builtins.isinstance
_len = builtins.len
_bytes = builtins.bytes
_str = builtins.str


def _simp(t):
    return z3.simplify(t) if z3.is_expr(t) else z3.IntVal(t)


def _zi(x):
    """python int / SxInt -> z3 Int term"""
    if z3.is_expr(x):
        return x
    if _isinstance(x, SxInt):
        return x.iterm()
    return z3.IntVal(builtins.int(x))


class Blob:
    """opaque byte string of symbolic length and arbitrary content"""
    _n = 0

    def __init__(self, name, length, meta=None):
        self.name = name
        self.length = _zi(length)
        self.meta = meta or {}
        self._arr = None

    def arr(self):
        if self._arr is None:
            self._arr = z3.Array('blob_%s' % self.name, z3.IntSort(), z3.IntSort())
        return self._arr

    def byte(self, idx):
        """content byte at idx as an Int term; its range 0..255 is asserted on first use"""
        t = z3.Select(self.arr(), idx)
        e = core.Engine.cur
        if e is not None and not getattr(e, 'replay', False):
            seen = e.tags.setdefault('blob_bytes', set())
            k = (self.name, z3.simplify(idx).sexpr() if z3.is_expr(idx) else idx)
            if k not in seen:
                seen.add(k)
                e.add(t >= 0, t <= 255)
        return t

    def __repr__(self):
        return 'Blob(%s)' % self.name


def _plen(p):
    k = p[0]
    if k == 'lit':
        return _len(p[1])
    if k in ('fld', 'opq'):
        return p[2]
    return SxInt.wrap(p[3] - p[2])


def _normalize(pieces):
    out = []
    for p in pieces:
        k = p[0]
        if k == 'lit':
            if not p[1]:
                continue
            if out and out[-1][0] == 'lit':
                out[-1] = ('lit', out[-1][1] + p[1])
                continue
        elif k == 'view':
            s, t = _simp(p[2]), _simp(p[3])
            if s.eq(t):
                continue
            p = ('view', p[1], s, t)
            if out and out[-1][0] == 'view' and out[-1][1] is p[1] and out[-1][3].eq(s):
                out[-1] = ('view', p[1], out[-1][2], t)
                continue
        elif k == 'fld':
            t = _simp(p[1])
            if z3.is_int_value(t):
                v = t.as_long()
                try:
                    b = v.to_bytes(p[2], 'big', signed=p[3])
                except OverflowError:
                    raise Unsupported('field value out of range in rope')
                if out and out[-1][0] == 'lit':
                    out[-1] = ('lit', out[-1][1] + b)
                else:
                    out.append(('lit', b))
                continue
            p = ('fld', t, p[2], p[3])
        out.append(p)
    return out


class BytesShim(type):
    def __instancecheck__(cls, x):
        return _isinstance(x, _bytes) or type.__instancecheck__(Rope, x)


class SxBytes(metaclass=BytesShim):
    """the name ``bytes`` inside instrumented modules"""

    def __new__(cls, x=b'', *a):
        if type(x) is Rope:
            return x
        if _isinstance(x, ByteArray):
            return x.to_rope()
        if _isinstance(x, (list, tuple)) and any(core.is_sym(v) for v in x):
            return mk([byte_piece(v) for v in x])
        if _isinstance(x, SxInt):
            x = builtins.int(x)
        return _bytes(x, *a)

    @staticmethod
    def fromhex(s):
        return _bytes.fromhex(s)


SxBytes.__name__ = 'bytes'
SxBytes.__qualname__ = 'bytes'


def byte_piece(v):
    if _isinstance(v, SxInt) and v.z is not None:
        return ('fld', v.iterm(), 1, False)
    return ('lit', _bytes([builtins.int(v)]))


def mk(pieces):
    ps = _normalize(pieces)
    if not ps:
        return b''
    if _len(ps) == 1 and ps[0][0] == 'lit':
        return ps[0][1]
    r = object.__new__(Rope)
    r.p = tuple(ps)
    r._len = None
    return r


def pieces_of(x):
    if type(x) is Rope:
        return x.p
    if _isinstance(x, (_bytes, bytearray, memoryview)):
        return (('lit', _bytes(x)),) if x else ()
    if _isinstance(x, ByteArray):
        return x.to_rope_pieces()
    raise TypeError('a bytes-like object is required, not %r' % type(x).__name__)


def isrope(x):
    return type(x) is Rope


class Rope:
    __slots__ = ('p', '_len')

    def __init__(self, *a):
        raise TypeError('use rope.mk')

    # ---- basic protocol
    def __sxlen__(self):
        if self._len is None:
            tot = 0
            for p in self.p:
                tot = tot + _plen(p)
            self._len = tot
        return self._len

    def __len__(self):
        return core.concrete(self.__sxlen__())

    def __sx_symbolic__(self):
        return True

    def __bool__(self):
        n = self.__sxlen__()
        if _isinstance(n, builtins.int):
            return n > 0
        return bool(n > 0)

    def __hash__(self):
        raise Unsupported('hash of symbolic bytes')

    def __repr__(self):
        out = []
        for p in self.p:
            if p[0] == 'lit':
                out.append(repr(p[1]) if _len(p[1]) < 12 else 'lit[%d]' % _len(p[1]))
            elif p[0] == 'fld':
                out.append('fld%d(%s)' % (p[2], _str(p[1])[:30]))
            elif p[0] == 'opq':
                out.append('opq%d' % p[2])
            else:
                out.append('%s[%s:%s]' % (p[1].name, _str(p[2])[:30], _str(p[3])[:30]))
        return 'Rope<' + ' + '.join(out) + '>'

    def __str__(self):
        return '<symbolic bytes>'

    def __add__(self, o):
        try:
            return mk(self.p + tuple(pieces_of(o)))
        except TypeError:
            return NotImplemented

    def __radd__(self, o):
        try:
            return mk(tuple(pieces_of(o)) + self.p)
        except TypeError:
            return NotImplemented

    def __mul__(self, n):
        n = core.concrete(n)
        return mk(self.p * n)

    def __iter__(self):
        n = _len(self)
        for i in range(n):
            yield self[i]

    # ---- slicing
    def __getitem__(self, ix):
        if _isinstance(ix, slice):
            if ix.step is not None and ix.step != 1:
                raise Unsupported('rope slice with step')
            return slice_rope(self, ix.start, ix.stop)
        return byte_at(self, ix)

    # ---- comparison
    def __eq__(self, o):
        if not (_isinstance(o, (_bytes, bytearray)) or type(o) is Rope or _isinstance(o, ByteArray)):
            return False
        return rope_eq(self, o)

    def __ne__(self, o):
        r = self.__eq__(o)
        return core.Not(r)

    # ---- bytes API subset
    def startswith(self, prefix):
        n = sx_len(prefix)
        return core.And(self.__sxlen__() >= n, slice_rope(self, 0, n) == prefix)

    def endswith(self, suffix):
        n = sx_len(suffix)
        L = self.__sxlen__()
        return core.And(L >= n, slice_rope(self, L - n, L) == suffix)

    def split(self, sep=None, maxsplit=-1):
        return split_rope(self, sep, maxsplit)

    def decode(self, enc='utf-8', errors='strict'):
        from . import text
        return text.decode(self, enc)

    def hex(self):
        raise Unsupported('hex of symbolic bytes')

    def __getattr__(self, name):
        if hasattr(_bytes, name):
            raise Unsupported('bytes method %r on symbolic bytes' % name)
        raise AttributeError("'bytes' object has no attribute %r" % name)


def sx_len(x):
    if hasattr(x, '__sxlen__'):
        return x.__sxlen__()
    return _len(x)


def clampi(x, lo, hi):
    """clamp int-ish x into [lo, hi] without forking"""
    x = core.ite(x < lo, lo, x)
    return core.ite(x > hi, hi, x)


def _norm1(x, L, default):
    """normalise one slice bound into [0, L]; prefers simple terms (proved facts) over nested ite"""
    if x is None:
        return default
    if _isinstance(x, SxInt) and x.z is None:
        x = x.v
    if _isinstance(x, builtins.int) and _isinstance(L, builtins.int):
        if x < 0:
            x = max(x + L, 0)
        return min(x, L)
    if _isinstance(x, builtins.int):
        if x >= 0:
            return x if x == 0 or _le(x, L) else (L if _le(L, x) else core.ite(x > L, L, x))
        y = x + L
        return y if _le(0, y) else (0 if _le(y, 0) else core.ite(y < 0, 0, y))
    if _le(0, x):
        return x if _le(x, L) else (L if _le(L, x) else core.ite(x > L, L, x))
    if _le(x, -1):
        y = x + L
        return y if _le(0, y) else (0 if _le(y, 0) else core.ite(y < 0, 0, y))
    x = core.ite(x < 0, x + L, x)
    return clampi(x, 0, L)


def _norm_bounds(L, a, b):
    a = _norm1(a, L, 0)
    b = _norm1(b, L, L)
    if _isinstance(a, builtins.int) and _isinstance(b, builtins.int):
        return a, max(a, b)
    if not _le(a, b):
        b = a if _le(b, a) else core.ite(b < a, a, b)
    return a, b


def _known_le(x, y):
    """cheap syntactic/simplifier test x <= y"""
    if _isinstance(x, builtins.int) and _isinstance(y, builtins.int):
        return x <= y
    r = z3.simplify(_zi(x) <= _zi(y))
    return z3.is_true(r)


def split_fld(p):
    """('fld', term, w, signed) -> list of w single-byte pieces"""
    _, t, w, signed = p
    u = t % (1 << (8 * w)) if signed else t
    out = []
    for k in range(w):
        sh = 8 * (w - 1 - k)
        b = (u / (1 << sh)) % 256 if sh else u % 256
        if w == 1 and not signed:
            b = t
        out.append(('fld', z3.simplify(b), 1, False))
    return out


def _le(x, y):
    """x <= y on the current path?  cheap syntactic test first, then the solver"""
    if _known_le(x, y):
        return True
    if _isinstance(x, builtins.int) and _isinstance(y, builtins.int):
        return False
    return core.prove(x <= y)


def slice_rope(r, a, b):
    L = sx_len(r)
    a, b = _norm_bounds(L, a, b)
    ps = pieces_of(r)
    out = []
    off = 0
    for p in ps:
        n = _plen(p)
        end = off + n
        # entirely before a or after b ?
        if _le(end, a):
            off = end
            continue
        if _le(b, off):
            break
        k = p[0]
        from_start = _le(a, off)
        to_end = _le(end, b)
        if k == 'view':
            lo = 0 if from_start else clampi(a - off, 0, n)
            hi = n if to_end else clampi(b - off, 0, n)
            out.append(('view', p[1], p[2] + _zi(lo), p[2] + _zi(hi)))
        else:
            lo = 0 if from_start else core.concrete(clampi(a - off, 0, n), cap=4096)
            hi = n if to_end else core.concrete(clampi(b - off, 0, n), cap=4096)
            if hi > lo:
                if k == 'lit':
                    out.append(('lit', p[1][lo:hi]))
                elif lo == 0 and hi == n:
                    out.append(p)
                elif k == 'fld':
                    out.extend(split_fld(p)[lo:hi])
                else:
                    raise Unsupported('slice inside opaque field')
        off = end
    return mk(out)


def byte_at(r, i):
    L = sx_len(r)
    if _isinstance(i, SxInt) and i.z is None:
        i = i.v
    neg = (i < 0)
    if bool(neg):
        i = i + L
    if bool(core.Or(i < 0, i >= L)):
        raise IndexError('index out of range')
    off = 0
    for p in pieces_of(r):
        n = _plen(p)
        end = off + n
        if bool(i < end):
            k = p[0]
            rel = i - off
            if k == 'lit':
                return p[1][core.concrete(rel, cap=4096)]
            if k == 'fld':
                if p[2] == 1 and not p[3]:
                    return SxInt.wrap(p[1], m=255)
                return SxInt.wrap(split_fld(p)[core.concrete(rel)][1], m=255)
            if k == 'view':
                return SxInt.wrap(p[1].byte(p[2] + _zi(rel)), m=255)
            raise Unsupported('byte of opaque field')
        off = end
    raise IndexError('index out of range')


_OPQ_EQ = {}


def _fld_as_int_of_lit(b, signed):
    return builtins.int.from_bytes(b, 'big', signed=signed)


def rope_eq(x, y):
    """-> bool or SxBool.  Structural: sound for 'equal' verdicts (same pieces => same bytes)."""
    px, py = list(pieces_of(x)), list(pieces_of(y))
    lx, ly = sx_len(x), sx_len(y)
    leq = (lx == ly)
    if _isinstance(leq, builtins.bool) and not leq:
        return False
    conds = [leq]
    i = j = 0
    # remaining part of current pieces
    cx = px[i] if px else None
    cy = py[j] if py else None

    def adv_x():
        nonlocal i, cx
        i += 1
        cx = px[i] if i < _len(px) else None

    def adv_y():
        nonlocal j, cy
        j += 1
        cy = py[j] if j < _len(py) else None

    while cx is not None and cy is not None:
        kx, ky = cx[0], cy[0]
        if kx == 'lit' and ky == 'lit':
            n = min(_len(cx[1]), _len(cy[1]))
            if cx[1][:n] != cy[1][:n]:
                return False
            rx, ry = cx[1][n:], cy[1][n:]
            if rx:
                cx = ('lit', rx)
            else:
                adv_x()
            if ry:
                cy = ('lit', ry)
            else:
                adv_y()
            continue
        if kx == 'fld' and ky == 'fld' and cx[2] == cy[2]:
            if cx[3] == cy[3]:
                conds.append(mkbool(cx[1] == cy[1]))
            else:
                m = 1 << (8 * cx[2])
                conds.append(mkbool(cx[1] % m == cy[1] % m))
            adv_x()
            adv_y()
            continue
        if kx == 'fld' and ky == 'lit' or kx == 'lit' and ky == 'fld':
            f, l = (cx, cy) if kx == 'fld' else (cy, cx)
            w = f[2]
            if _len(l[1]) >= w:
                conds.append(mkbool(f[1] == _fld_as_int_of_lit(l[1][:w], f[3])))
                rest = l[1][w:]
                if kx == 'fld':
                    adv_x()
                    if rest:
                        cy = ('lit', rest)
                    else:
                        adv_y()
                else:
                    adv_y()
                    if rest:
                        cx = ('lit', rest)
                    else:
                        adv_x()
                continue
            # split the field into bytes and retry
            bs = split_fld(f)
            if kx == 'fld':
                px[i:i + 1] = bs
                cx = px[i]
            else:
                py[j:j + 1] = bs
                cy = py[j]
            continue
        if kx == 'fld' and ky == 'fld':
            # different widths: split the wider one
            if cx[2] > cy[2]:
                px[i:i + 1] = split_fld(cx)
                cx = px[i]
            else:
                py[j:j + 1] = split_fld(cy)
                cy = py[j]
            continue
        if kx == 'opq' and ky == 'opq' and cx[2] == cy[2] and cx[3] == cy[3]:
            r = (cx[1] == cy[1]) if cx[1] is not cy[1] else True
            conds.append(r)
            adv_x()
            adv_y()
            continue
        if kx == 'view' and ky == 'view' and cx[1] is cy[1]:
            s = z3.simplify(cx[2] == cy[2])
            t = z3.simplify(cx[3] == cy[3])
            if z3.is_true(s):
                if z3.is_true(t):
                    adv_x()
                    adv_y()
                    continue
                # same start, different stop: if one provably shorter, peel it
                if core.prove(cx[3] <= cy[3]):
                    cy = ('view', cy[1], cx[3], cy[3])
                    adv_x()
                    if core.prove(cy[2] == cy[3]):
                        adv_y()
                    continue
                if core.prove(cy[3] <= cx[3]):
                    cx = ('view', cx[1], cy[3], cx[3])
                    adv_y()
                    if core.prove(cx[2] == cx[3]):
                        adv_x()
                    continue
            elif core.prove(cx[2] == cy[2]):
                cy = ('view', cy[1], cx[2], cy[3])
                continue
        # whole views of two different fixed-size blobs of equal size: compare blob-wise and go on
        if kx == 'view' and ky == 'view' and cx[1] is not cy[1]:
            fx = z3.simplify(cx[2]).eq(z3.IntVal(0)) and z3.simplify(cx[3]).eq(z3.simplify(cx[1].length))
            fy = z3.simplify(cy[2]).eq(z3.IntVal(0)) and z3.simplify(cy[3]).eq(z3.simplify(cy[1].length))
            if fx and fy and z3.is_int_value(z3.simplify(cx[1].length)) and z3.simplify(cx[1].length).eq(z3.simplify(cy[1].length)):
                conds.append(blob_eq(cx[1], cy[1]))
                adv_x()
                adv_y()
                continue
        # a view that is provably empty can be skipped
        if kx == 'view' and core.prove(cx[2] == cx[3]):
            adv_x()
            continue
        if ky == 'view' and core.prove(cy[2] == cy[3]):
            adv_y()
            continue
        # a provably non-empty view against a byte-valued piece (field, short literal): compare the first byte
        # through the blob's content array and go on with the rest of the view
        if (kx == 'view' and ky in ('fld', 'lit')) or (ky == 'view' and kx in ('fld', 'lit')):
            vw, ot = (cx, cy) if kx == 'view' else (cy, cx)
            if ot[0] == 'fld' and (ot[2] > 1 or ot[3]) and ot[2] <= 8:
                bs = split_fld(ot)
                if kx == 'view':
                    py[j:j + 1] = bs
                    cy = py[j]
                else:
                    px[i:i + 1] = bs
                    cx = px[i]
                continue
            small = (ot[0] == 'fld' and ot[2] == 1) or (ot[0] == 'lit' and 0 < _len(ot[1]) <= 16)
            if small and core.prove(vw[2] < vw[3]):
                b = vw[1].byte(z3.simplify(vw[2]))
                if ot[0] == 'fld':
                    conds.append(mkbool(b == ot[1]))
                    orest = None
                else:
                    conds.append(mkbool(b == z3.IntVal(ot[1][0])))
                    orest = ('lit', ot[1][1:]) if _len(ot[1]) > 1 else None
                vrest = ('view', vw[1], z3.simplify(vw[2] + 1), vw[3])
                if core.prove(vrest[2] == vrest[3]):
                    vrest = None
                if kx == 'view':
                    if vrest is None:
                        adv_x()
                    else:
                        cx = vrest
                    if orest is None:
                        adv_y()
                    else:
                        cy = orest
                else:
                    if vrest is None:
                        adv_y()
                    else:
                        cy = vrest
                    if orest is None:
                        adv_x()
                    else:
                        cx = orest
                continue
        # the rest is opaque: equality of the whole is the conditions collected so far (each a necessary
        # condition) and a free Boolean for the remainders
        if _len(conds) > 1:
            rx, ry = mk([cx] + px[i + 1:]), mk([cy] + py[j + 1:])
            return core.And(*(conds + [_opaque_eq(rx, ry, sx_len(rx) == sx_len(ry))]))
        return _opaque_eq(x, y, leq)
    # leftovers must be empty
    for rest in ([cx] + px[i + 1:] if cx is not None else []) + ([cy] + py[j + 1:] if cy is not None else []):
        n = _plen(rest)
        if _isinstance(n, builtins.int):
            if n:
                return False
        else:
            conds.append(n == 0)
    return core.And(*conds)


def blob_eq(b1, b2):
    """content equality of two different opaque blobs of the same fixed size: a free Boolean (cached per
    pair), except where the model knows the contents differ: encodings of distinct keys, and results of
    one uninterpreted function under the collision-freedom switch"""
    if b1 is b2:
        return True
    k1, k2 = b1.meta.get('der_of'), b2.meta.get('der_of')
    if k1 is not None and k2 is not None and k1 is not k2:
        return False
    e = E()
    cache = e.tags.setdefault('blob_eq', {})
    key = tuple(sorted([b1.name, b2.name]))
    if key in cache:
        c = cache[key]
        return c if _isinstance(c, builtins.bool) else SxBool(c)
    same_uf = b1.meta.get('uf') and b1.meta.get('uf') == b2.meta.get('uf') and 'uf_args' in b1.meta and 'uf_args' in b2.meta
    if same_uf:
        # two results of one uninterpreted function: equal arguments give equal results (congruence);
        # under the collision-freedom switch the converse holds too
        aeq = _uf_args_eq(b1.meta['uf_args'], b2.meta['uf_args'])
        if e.tags.get('collision_free'):
            cache[key] = aeq if _isinstance(aeq, builtins.bool) else tobool(aeq)
            c = cache[key]
            return c if _isinstance(c, builtins.bool) else SxBool(c)
        if _isinstance(aeq, builtins.bool) and aeq:
            cache[key] = True
            return True
    v = e.newvar('blob_eq_%s_%s' % key, z3.BoolSort())
    if same_uf and not _isinstance(aeq, builtins.bool):
        e.add(z3.Implies(tobool(aeq), v))
    cache[key] = v
    return SxBool(v)


def _uf_args_eq(a1, a2):
    if _len(a1) != _len(a2):
        return False
    conds = []
    for x, y in zip(a1, a2):
        if isrope(x) or isrope(y) or _isinstance(x, (_bytes, bytearray)) or _isinstance(y, (_bytes, bytearray)):
            c = rope_eq(x, y)
        elif x is None or y is None:
            c = x is y
        else:
            c = (x == y)
        if _isinstance(c, builtins.bool):
            if not c:
                return False
            continue
        conds.append(c)
    if not conds:
        return True
    return core.And(*conds)


def rope_key(x):
    out = []
    for p in pieces_of(x):
        if p[0] == 'lit':
            out.append(('lit', p[1]))
        elif p[0] == 'fld':
            out.append(('fld', p[1].sexpr() if z3.is_expr(p[1]) else p[1], p[2], p[3]))
        elif p[0] == 'opq':
            out.append(('opq', id(p[1]), p[2], p[3]))
        else:
            out.append(('view', p[1].name, _simp(p[2]).sexpr(), _simp(p[3]).sexpr()))
    return tuple(out)


def _opaque_eq(x, y, leq):
    """content of unrelated opaque blobs: equality is a free Boolean (implies equal length)"""
    e = E()
    if e.tags.get('collision_free'):
        # assumption switch: distinct arguments of one uninterpreted function give distinct results
        bx, by = full_view_blob(x) if isrope(x) else None, full_view_blob(y) if isrope(y) else None
        if bx is not None and by is not None and bx is not by and bx.meta.get('uf') and bx.meta.get('uf') == by.meta.get('uf'):
            return blob_eq(bx, by)
    kx, ky = rope_key(x), rope_key(y)
    key = ('opqeq',) + tuple(sorted([kx, ky], key=repr))
    cache = e.tags.setdefault('opaque_eq', {})
    if key not in cache:
        v = e.newvar('bytes_eq', z3.BoolSort())
        z = tobool(leq)
        if not _isinstance(z, builtins.bool):
            e.add(z3.Implies(v, z))
        # two empty byte strings are equal whatever they are made of
        lx, ly = sx_len(x), sx_len(y)
        both_empty = tobool(core.And(lx == 0, ly == 0))
        if not _isinstance(both_empty, builtins.bool):
            e.add(z3.Implies(both_empty, v))
        elif both_empty:
            e.add(v)
        cache[key] = v
    return SxBool(cache[key])


def split_rope(r, sep, maxsplit=-1):
    if sep is None or not _isinstance(sep, _bytes) or _len(sep) != 1:
        raise Unsupported('rope.split with this separator')
    parts = []
    cur = []
    for p in pieces_of(r):
        if p[0] == 'lit':
            chunks = p[1].split(sep)
            for ci, c in enumerate(chunks):
                if ci > 0:
                    parts.append(mk(cur))
                    cur = []
                if c:
                    cur.append(('lit', c))
        elif p[0] == 'view':
            nosep = p[1].meta.get('excludes', b'')
            if sep not in [nosep[k:k + 1] for k in range(_len(nosep))]:
                raise Unsupported('split: blob may contain the separator')
            cur.append(p)
        else:
            raise Unsupported('split over packed field')
    parts.append(mk(cur))
    if maxsplit is not None and maxsplit >= 0 and _len(parts) > maxsplit + 1:
        raise Unsupported('maxsplit')
    return parts


def join(sep, items):
    items = list(items)
    if _isinstance(sep, (_str,)) or type(sep).__name__ == 'Text':
        from . import text
        return text.join(sep, items)
    if _isinstance(sep, (_bytes, bytearray)) and all(_isinstance(x, (_bytes, bytearray)) for x in items):
        return sep.join(items)
    if not (_isinstance(sep, _bytes) or isrope(sep)):
        return sep.join(items)
    out = []
    sp = tuple(pieces_of(sep))
    for k, it in enumerate(items):
        if k:
            out.extend(sp)
        out.extend(pieces_of(it))
    return mk(out)


def _replay_bytes(name, n):
    import hashlib
    out = b''
    i = 0
    while _len(out) < n:
        out += hashlib.sha256(('%s:%d' % (name, i)).encode()).digest()
        i += 1
    return out[:n]


def blob(name, lo=0, hi=None, excludes=b'', declare=0):
    """fresh opaque byte string of symbolic length in [lo, hi]; declared as input '<name>_len'.
    declare=K additionally declares the first K bytes as inputs '<name>[i]' so that a counterexample
    carries the bytes the code looked at"""
    L = core.symint(name + '_len', lo, hi)
    r = core._rp()
    if r is not None:
        L = max(0, min(L, 1 << 24))
        data = bytearray(_replay_bytes(name, L))
        for ch in excludes:
            data = bytearray(_bytes(data).replace(_bytes([ch]), b'_'))
        for i in range(declare):
            v = r.model.get('%s[%d]' % (name, i))
            r.inputs['%s[%d]' % (name, i)] = True
            if v is not None and i < L:
                data[i] = builtins.int(v) & 255
        return _bytes(data), L
    b = Blob(name, _zi(L), meta={'excludes': excludes})
    for i in range(declare):
        core.declare_input('%s[%d]' % (name, i), b.byte(z3.IntVal(i)))
    return mk([('view', b, z3.IntVal(0), _zi(L))]), L


def fixed_blob(name, n, excludes=b''):
    if core._rp() is not None:
        return _replay_bytes(name, n)
    b = Blob(name, z3.IntVal(n), meta={'excludes': excludes})
    return mk([('view', b, z3.IntVal(0), z3.IntVal(n))])


def symbytes(name, n):
    """n individually symbolic bytes (each an Int in 0..255), declared as inputs name[i]"""
    ps = []
    for i in range(n):
        v = core.symint('%s[%d]' % (name, i), 0, 255)
        ps.append(byte_piece(v))
    if core._rp() is not None:
        return b''.join(p[1] for p in ps)
    return mk(ps)


def field(term, width, signed=False):
    if core._rp() is not None:
        return builtins.int(term).to_bytes(width, 'big', signed=signed)
    return mk([('fld', _zi(term), width, signed)])


def full_view_blob(x):
    """if x is exactly one whole blob return it, else None"""
    ps = pieces_of(x)
    if _len(ps) == 1 and ps[0][0] == 'view':
        b = ps[0][1]
        if _simp(ps[0][2]).eq(z3.IntVal(0)) and (_simp(ps[0][3]).eq(_simp(b.length)) or core.prove(ps[0][3] == b.length)):
            return b
    return None


def decide_full_blob(x, want=None):
    """like full_view_blob but *decides* (forks) instead of requiring a proof: x is blob b exactly
    iff its first view covers all of b and every other piece is empty.  want(blob) filters candidates."""
    if not isrope(x):
        return None
    ps = pieces_of(x)
    cand = None
    for i, p in enumerate(ps):
        if p[0] == 'view' and (want is None or want(p[1])):
            cand = (i, p)
            break
    if cand is None:
        return None
    i, p = cand
    conds = [SxInt.wrap(p[2]) == 0, SxInt.wrap(p[3]) == SxInt.wrap(p[1].length)]
    for j, q in enumerate(ps):
        if j == i:
            continue
        n = _plen(q)
        if _isinstance(n, builtins.int):
            if n:
                return None
        else:
            conds.append(n == 0)
    if bool(core.And(*conds)):
        return p[1]
    return None


class ByteArray:
    """bytearray over possibly symbolic byte values (concrete length)"""

    def __init__(self, src=b''):
        if _isinstance(src, ByteArray):
            self.b = list(src.b)
        elif type(src) is Rope:
            n = _len(src)
            self.b = [src[i] for i in range(n)]
        elif _isinstance(src, (builtins.int, SxInt)):
            self.b = [0] * core.concrete(src)
        else:
            self.b = list(_bytes(src))

    def __len__(self):
        return _len(self.b)

    def __getitem__(self, i):
        if _isinstance(i, slice):
            return ByteArray.from_list(self.b[i])
        return self.b[core.concrete(i)]

    def __setitem__(self, i, v):
        self.b[core.concrete(i)] = v

    @staticmethod
    def from_list(l):
        x = ByteArray()
        x.b = list(l)
        return x

    def to_rope_pieces(self):
        return tuple(byte_piece(v) for v in self.b)

    def to_rope(self):
        return mk(self.to_rope_pieces())

    def __eq__(self, o):
        return self.to_rope() == o if any(core.is_sym(v) for v in self.b) else _bytes(self.b) == o

    def __ne__(self, o):
        return core.Not(self.__eq__(o))

    def __iter__(self):
        return iter(self.b)

    def __add__(self, o):
        return self.to_rope() + o

    def decode(self, enc='utf-8', errors='strict'):
        r = self.to_rope()
        if _isinstance(r, _bytes):
            return r.decode(enc, errors)
        return r.decode(enc, errors)

    __hash__ = None


class ByteArrayShim(type):
    def __instancecheck__(cls, x):
        return _isinstance(x, (bytearray, ByteArray))


class SxByteArrayType(metaclass=ByteArrayShim):
    def __new__(cls, src=b''):
        if type(src) is Rope or _isinstance(src, ByteArray):
            return ByteArray(src)
        return bytearray(src)


SxByteArrayType.__name__ = 'bytearray'
