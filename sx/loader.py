"""Load /repo's modules into an instrumented namespace (regenerated from source on every run).

* the module source is read from $VERIF_REPO/mpgameserver (default /repo/mpgameserver), parsed,
  rewritten (a handful of mechanical AST rewrites, see Rewriter) and exec'd in a module whose
  ``__builtins__`` is a private dict in which ``int``, ``bytes``, ``dict`` ... are proxy-aware.
* imports of sibling modules resolve to instrumented siblings; imports of struct/io/os/time/
  cryptography/... resolve to the environment models in sx.models.
"""
import ast
import builtins
import os
import sys
import types

from . import core
from .core import SxInt, SxBool, SxReal, Unsupported, SxControl
from . import values
from .values import SxDict, SxSet

REPO = os.environ.get('VERIF_REPO', '/repo')
PKG = os.path.join(REPO, 'mpgameserver')

MODS = {}            # name -> instrumented module
ENTERED = set()      # qualified function names entered (for evidence)
MODELS = {}          # import name -> model module (filled by sx.models)
_real_import = builtins.__import__


class Rewriter(ast.NodeTransformer):
    def __init__(self, modname):
        self.modname = modname
        self.scope = []

    # "fmt" % args  and  a % b
    def visit_BinOp(self, node):
        self.generic_visit(node)
        if isinstance(node.op, ast.Mod):
            return ast.copy_location(
                ast.Call(ast.Name('__sx_mod__', ast.Load()), [node.left, node.right], []), node)
        return node

    def visit_AugAssign(self, node):
        self.generic_visit(node)
        return node

    def visit_Dict(self, node):
        self.generic_visit(node)
        if any(k is None for k in node.keys):
            return node
        pairs = [ast.Tuple([k, v], ast.Load()) for k, v in zip(node.keys, node.values)]
        return ast.copy_location(
            ast.Call(ast.Name('__sx_dict__', ast.Load()), [ast.List(pairs, ast.Load())], []), node)

    def visit_DictComp(self, node):
        self.generic_visit(node)
        lc = ast.ListComp(ast.Tuple([node.key, node.value], ast.Load()), node.generators)
        return ast.copy_location(ast.Call(ast.Name('__sx_dict__', ast.Load()), [lc], []), node)

    def visit_Set(self, node):
        self.generic_visit(node)
        return ast.copy_location(
            ast.Call(ast.Name('__sx_set__', ast.Load()), [ast.List(node.elts, ast.Load())], []), node)

    def visit_SetComp(self, node):
        self.generic_visit(node)
        lc = ast.ListComp(node.elt, node.generators)
        return ast.copy_location(ast.Call(ast.Name('__sx_set__', ast.Load()), [lc], []), node)

    def visit_Call(self, node):
        self.generic_visit(node)
        f = node.func
        if isinstance(f, ast.Attribute) and f.attr == 'join' and len(node.args) == 1 and not node.keywords:
            return ast.copy_location(
                ast.Call(ast.Name('__sx_join__', ast.Load()), [f.value, node.args[0]], []), node)
        if isinstance(f, ast.Name) and f.id == 'type' and len(node.args) == 1 and not node.keywords:
            return ast.copy_location(
                ast.Call(ast.Name('__sx_type__', ast.Load()), [f, node.args[0]], []), node)
        return node

    def _tick(self, node):
        t = ast.Expr(ast.Call(ast.Name('__sx_tick__', ast.Load()), [], []))
        return ast.copy_location(t, node)

    def visit_For(self, node):
        self.generic_visit(node)
        node.body.insert(0, self._tick(node))
        return node

    def visit_While(self, node):
        self.generic_visit(node)
        node.body.insert(0, self._tick(node))
        return node

    def visit_ClassDef(self, node):
        self.scope.append(node.name)
        self.generic_visit(node)
        self.scope.pop()
        return node

    def _func(self, node):
        self.scope.append(node.name)
        self.generic_visit(node)
        self.scope.pop()
        qn = '.'.join([self.modname] + self.scope + [node.name])
        t = ast.Expr(ast.Call(ast.Name('__sx_enter__', ast.Load()), [ast.Constant(qn)], []))
        ast.copy_location(t, node)
        i = 0
        if node.body and isinstance(node.body[0], ast.Expr) and isinstance(node.body[0].value, ast.Constant) \
                and isinstance(node.body[0].value.value, str):
            i = 1
        node.body.insert(i, t)
        return node

    visit_FunctionDef = _func
    visit_AsyncFunctionDef = _func


def _enter(qn):
    ENTERED.add(qn)
    core.tick()


# names that keep their real builtin in a given module (dict subclasses used as class namespaces)
NO_SHIM = {'http_server': ('dict',)}


def make_builtins(modname=None):
    bi = dict(vars(builtins))
    bi.update(values.SHIM_BUILTINS)
    for n in NO_SHIM.get(modname, ()):
        bi[n] = getattr(builtins, n)
    bi['__import__'] = _import
    bi['print'] = lambda *a, **k: None
    return bi


class _Pkg(types.ModuleType):
    """stand-in for the ``mpgameserver`` package: names resolve lazily to instrumented modules"""
    _table = None

    def __getattr__(self, name):
        if name.startswith('__'):
            raise AttributeError(name)
        if os.path.exists(os.path.join(PKG, name + '.py')):
            return load(name)
        if _Pkg._table is None:
            _Pkg._table = {}
            tree = ast.parse(open(os.path.join(PKG, '__init__.py')).read())
            for n in ast.walk(tree):
                if isinstance(n, ast.ImportFrom) and n.module and n.module.startswith('mpgameserver.'):
                    for a in n.names:
                        _Pkg._table[a.asname or a.name] = (n.module.split('.', 1)[1], a.name)
        if name in _Pkg._table:
            m, attr = _Pkg._table[name]
            return getattr(load(m), attr)
        raise AttributeError(name)


PKGOBJ = _Pkg('sxm')
PKGOBJ.__path__ = []


def _import(name, globals=None, locals=None, fromlist=(), level=0):
    if level >= 1:
        if name:
            return load(name)
        return PKGOBJ
    if name == 'mpgameserver':
        return PKGOBJ
    if name.startswith('mpgameserver.'):
        sub = name.split('.', 1)[1]
        m = load(sub)
        return m if fromlist else PKGOBJ
    top = name.split('.')[0]
    if name in MODELS:
        return MODELS[name] if fromlist else MODELS.get(top, MODELS[name])
    if top in MODELS:
        # a submodule of a modelled package that has no model: resolve attributes lazily
        m = MODELS[top]
        if not fromlist:
            return m
        for part in name.split('.')[1:]:
            try:
                m = getattr(m, part)
            except AttributeError:
                raise ModuleNotFoundError("No module named %r (no model)" % name)
        return m
    return _real_import(name, globals, locals, fromlist, level)


def _post_serializable(m):
    """typing.get_origin returns the real dict/set classes; the module compares them with its own
    (shimmed) names `dict` / `set`"""
    import typing
    real_get_origin = typing.get_origin

    def get_origin(t):
        o = real_get_origin(t)
        return values.TYPE_MAP.get(o, o) if o in (builtins.dict, builtins.set) else o
    m.get_origin = get_origin


POST_LOAD = {'serializable': _post_serializable}
REPLACED = {}        # module name -> model module replacing a repo module wholesale (logger)


def load(name):
    if name in REPLACED:
        return REPLACED[name]
    if name in MODS:
        return MODS[name]
    path = os.path.join(PKG, name + '.py')
    src = open(path).read()
    tree = Rewriter(name).visit(ast.parse(src))
    ast.fix_missing_locations(tree)
    m = types.ModuleType('sxm.' + name)
    m.__file__ = path
    m.__package__ = 'sxm'
    MODS[name] = m
    g = m.__dict__
    g['__builtins__'] = make_builtins(name)
    g['__sx_mod__'] = values.sx_mod
    g['__sx_dict__'] = values.sx_dict_literal
    g['__sx_set__'] = values.sx_set_literal
    g['__sx_join__'] = values.sx_join
    g['__sx_type__'] = values.sx_type_call
    g['__sx_tick__'] = core.tick
    g['__sx_enter__'] = _enter
    try:
        exec(compile(tree, path, 'exec'), g)
    except BaseException:
        del MODS[name]
        raise
    if name in POST_LOAD:
        POST_LOAD[name](m)
    return m


# ------------------------------------------------------------------ global-state snapshot

_SNAP = None
_IMMUT = (int, float, str, bytes, bool, type(None), tuple, frozenset, SxInt)


def _snap_value(v):
    if isinstance(v, (dict, list, set)):
        return ('copy', type(v)(v))
    if isinstance(v, (SxDict, SxSet)):
        return ('copy', v.copy())
    if isinstance(v, _IMMUT):
        return ('ref', v)
    return None


def _targets():
    for name, m in list(MODS.items()):
        yield m
        for v in list(vars(m).values()):
            if isinstance(v, type) and getattr(v, '__module__', None) == m.__name__:
                yield v


def freeze():
    """record class attributes / module globals (Packet.MTU..., SerializableType.registry...)"""
    global _SNAP
    snap = []
    for t in _targets():
        d = {}
        for k, v in list(vars(t).items()):
            if k.startswith('__'):
                continue
            s = _snap_value(v)
            if s is not None:
                d[k] = s
        snap.append((t, d))
    _SNAP = snap


def restore():
    if _SNAP is None:
        freeze()
        return
    for t, d in _SNAP:
        cur = vars(t)
        for k, (kind, v) in d.items():
            if kind == 'ref':
                if cur.get(k, None) is not v:
                    setattr(t, k, v)
            else:
                c = cur.get(k, None)
                if isinstance(c, type(v)):
                    # restore in place: other objects may hold a reference to the container
                    if isinstance(v, (dict, set)):
                        if c != v or list(c) != list(v):
                            c.clear()
                            c.update(v)
                    elif isinstance(v, list):
                        if c != v:
                            c[:] = v
                    else:
                        c.restore_from(v)
                else:
                    setattr(t, k, v.copy())
